# Per-property execution plan for check.py: which tests run, how many cases per shard, how many shards.
# step keys: test, kind (rapid|plain|fuzz), quick=(checks_per_shard, shards), thorough=(...), race, timeout, env, tier

PLAN = {
    "C01": [
        dict(test="TestC01", quick=(2500, 16), thorough=(15000, 16), timeout_thorough=7200),
        # drift guard for the verif-tagged step functions (a failure here is an infrastructure failure: exit 2)
        dict(test="TestHookConformance", quick=(25, 2), thorough=(400, 4), timeout=1500, timeout_thorough=3600),
    ],
    "C02": [
        dict(test="TestC02", quick=(25000, 8), thorough=(600000, 8), timeout_thorough=7200),
        # sequences of proofs on ONE validator instance, with the consumer's receive buffer reused (state must not leak between calls)
        dict(test="TestC02Seq", quick=(8000, 4), thorough=(200000, 8)),
        dict(test="FuzzC02", kind="fuzz", fuzztime=240),
    ],
    "C03": [dict(test="TestC03", quick=(2500, 16), thorough=(15000, 16), timeout_thorough=7200)],
    "C04": [dict(test="TestC04", quick=(2500, 16), thorough=(15000, 16), timeout_thorough=7200)],
    "C05": [dict(test="TestC05", quick=(1500, 16), thorough=(12000, 16), timeout_thorough=7200)],
    "C07": [
        dict(test="TestC07N", quick=(6000, 8), thorough=(60000, 8), timeout_thorough=7200),
        dict(test="TestC07S", quick=(2000, 8), thorough=(15000, 8), timeout_thorough=7200),
    ],
    "C08": [
        dict(test="TestC08N", quick=(6000, 8), thorough=(60000, 8), timeout_thorough=7200),
        dict(test="TestC08S", quick=(2000, 8), thorough=(15000, 8), timeout_thorough=7200),
    ],
    "C09": [
        dict(test="TestC09N", quick=(5000, 8), thorough=(50000, 8), timeout_thorough=7200),
        dict(test="TestC09S", quick=(2000, 8), thorough=(15000, 8), timeout_thorough=7200),
    ],
    "C11": [
        dict(test="TestC11", quick=(2500, 16), thorough=(15000, 16), timeout_thorough=7200),
        # at emission, every correct peer is cloned by replay and judged at once (the variant the property's quantifier names for the thorough tier)
        dict(test="TestC11Clone", quick=(100, 8), thorough=(1500, 16), timeout_thorough=7200),
    ],
    "C10": [
        dict(test="TestC10", quick=(2500, 16), thorough=(15000, 16), timeout_thorough=7200),
        dict(test="TestC10N", quick=(5000, 6), thorough=(50000, 8), timeout_thorough=7200),
    ],
    "C12": [
        dict(test="TestC12N", quick=(4000, 8), thorough=(60000, 8), timeout_thorough=7200),
        dict(test="TestC12R", quick=(100, 8), thorough=(1500, 8), race=True, timeout=1500, timeout_thorough=7200),
        # ValidateBlockConsensus / GetMemberIdsFromBlockProof: sequences on one instance, hostile bytes in a reused buffer
        dict(test="TestC12Proofs", quick=(8000, 4), thorough=(200000, 8)),
        dict(test="FuzzC12", kind="fuzz", fuzztime=300),
    ],
    "C13": [
        dict(test="TestC13R", quick=(120, 10), thorough=(1500, 8), race=True, timeout=1500, timeout_thorough=7200),
        dict(test="TestC13S", quick=(2000, 6), thorough=(15000, 8), timeout_thorough=7200),
        # views at the top of the 64-bit range (valid NEW_VIEWs into them, then timeouts): no wrap-around
        dict(test="TestC13N", quick=(3000, 4), thorough=(50000, 8)),
    ],
    "C14": [
        dict(test="TestC14R", quick=(150, 16), thorough=(1500, 16), race=True, timeout=1500, timeout_thorough=7200),
        dict(test="TestC14S", quick=(1500, 6), thorough=(12000, 8), timeout_thorough=7200),
    ],
    "C15": [
        dict(test="TestC15Exhaustive", kind="plain", quick=(0, 1), thorough=(0, 1), timeout_thorough=3600),
        dict(test="TestC15Registry", quick=(20000, 3), thorough=(400000, 4)),
        dict(test="TestC15R", quick=(120, 12), thorough=(1500, 12), race=True, timeout=1500, timeout_thorough=7200),
        # deterministic engine: main-loop events that land while a node's worker is inside a consumer call
        dict(test="TestC15S", quick=(1500, 6), thorough=(12000, 8), timeout_thorough=7200),
    ],
    "C17": [
        dict(test="TestC17Exhaustive", kind="plain", quick=(0, 1), thorough=(0, 1), timeout_thorough=3600),
        dict(test="TestC17Random", quick=(15000, 8), thorough=(400000, 8)),
        # node-level view in cluster executions with membership changes between heights
        dict(test="TestC17S", quick=(1500, 8), thorough=(12000, 8), timeout_thorough=7200),
    ],
    "C19": [
        dict(test="TestC19FormulaDense", kind="plain", quick=(0, 1), thorough=(0, 1)),
        dict(test="TestC19Formula", quick=(30000, 2), thorough=(1000000, 4)),
        dict(test="TestC19Trigger", quick=(25, 8), thorough=(600, 8), timeout=1500, timeout_thorough=7200),
        dict(test="TestC19Node", quick=(8, 4), thorough=(150, 4), timeout=1500, timeout_thorough=7200),
        # the trigger's way through the two loops (fake scheduler, gated SPIs): a trigger for the current position is never lost
        dict(test="TestC19R", quick=(60, 8), thorough=(1000, 8), race=True, timeout=1500, timeout_thorough=7200),
        # real timer, commit callbacks that outlast the election timeout: a view left by timeout lasted at least its timeout
        dict(test="TestC19RT", quick=(12, 8), thorough=(300, 8), timeout=1500, timeout_thorough=7200),
    ],
    "C20": [
        dict(test="TestC20", quick=(6000, 16), thorough=(200000, 16), timeout_thorough=7200),
        # what correct nodes actually put on the wire in generated cluster executions (votes and proofs nested from stored messages)
        dict(test="TestC20S", quick=(1200, 8), thorough=(12000, 8), timeout_thorough=7200),
        dict(test="FuzzC20", kind="fuzz", fuzztime=180),
    ],
    "C16": [dict(test="TestC16R", quick=(120, 16), thorough=(1500, 16), race=True, timeout=1500, timeout_thorough=7200)],
    "C18": [
        dict(test="TestC18Dense", kind="plain", quick=(0, 1), thorough=(0, 1)),
        dict(test="TestC18Leader", quick=(30000, 4), thorough=(1500000, 8)),
        dict(test="TestC18N", quick=(4000, 8), thorough=(50000, 8), timeout_thorough=7200),
        # the member at position (view mod n) does take the lead when voted, also several rotations ahead of its own view
        dict(test="TestC18Elect", quick=(4000, 4), thorough=(50000, 8)),
    ],
    "C06": [
        dict(test="TestC06Exhaustive", kind="plain", quick=(0, 1), thorough=(0, 1)),
        dict(test="TestC06Random", quick=(15000, 4), thorough=(300000, 8)),
        dict(test="TestC06Boundary", quick=(15000, 4), thorough=(300000, 8)),
        # one committee slice object refreshed in place between calls (nothing remembered between calls may change a result)
        dict(test="TestC06Stateful", quick=(10000, 2), thorough=(300000, 4)),
        # the thresholds as the protocol logic applies them (prepared / committed / elected on a real node), both directions
        dict(test="TestC06InUse", quick=(5000, 6), thorough=(60000, 8)),
    ],
}

SIM_RULE = ("cases = generated executions of the deterministic cluster simulator over real node code: committee size 4..7 (thorough 10), weight classes (unit, small, one heavy, 1..100, stake-sized k*2^58, with zero-weight members), generated leader order and per-height rotation of order and weights, "
            "optional membership change (1-2 identities absent from one height's committee, re-joining by sync), Byzantine key set of weight <= f (biased to maximal), 0..2 outsiders with valid keys, optional crashed node, optional transport that fails half way through a broadcast and reports it, "
            "optional main-loop event (election / sync to the tip) landing while one node's worker is inside ValidateBlockProposal / RequestNewBlockProposal / the commit callback (worker half later, optionally after further deliveries; consumer may give up on cancel), 1..3 heights (thorough 4); "
            "scripted templates (equivocating leader incl. same header with another block attached, per-member loss profiles, lifted signatures, Byzantine-led view changes with a 30-entry NEW_VIEW preset catalogue, assisted view changes in which Byzantine members vote and follow like correct ones, laggards), "
            "then 5..150 swarm-weighted steps of deliver/run/drop/dup/timeout(s)/hold/release/sync/catchup/adversary injection (strategies pp, prepare, commit, vc, nv, replay/re-wrap/tamper/lift, support, follow, votes, liftall; timeouts and syncs may be split into main-loop half and later worker half), optional healing epilogue. ")

RULES = {
    "C01": SIM_RULE + "Oracle: <=1 block hash per height over correct nodes' commit callbacks. Non-trivial = >=1 correct commit AND (a view > 0 was entered OR a Byzantine/outsider message was stored by a correct node). Distinct = hash of (config, abstracted action trace).",
    "C02": "cases = (committee 4..10 with weights incl. 0 and > 2^53, block, mode strict/soft, previous proof nil/genuine/wrong, genuine COMMIT certificate whose signer set is cut exactly at Q, Q-1, F+1, F, all or random, then 0..3 mutations: duplicate signer, outsider padding/replacement with valid signatures, header type tag, signature garbage / over the PREPARE-tagged header / other view / other key, instance, height, hash other/empty, seed signature empty/garbage/other height/other seed, wrong previous proof, nil block, byte-level surgery, dropped signer, flipped mode, random bytes). Oracle: ValidateBlockConsensus returns nil => the independent reference validator accepts; no panic; GetMemberIdsFromBlockProof never panics and returns exactly the signers of accepted proofs. Non-trivial = parses as a COMMIT certificate for the right instance and height (verdict hinges on signer set / one mutation). Distinct = the whole case. accept rate on reference-valid proofs is reported in classes. TestC02Seq: 2..3 such proofs validated in sequence on ONE validator instance (fork block under the first proof's signatures, other view, same proof again, in-place corruption), optionally all written into one reused receive buffer; cases in which the consumer's committee service fails must be refused.",
    "C03": SIM_RULE + "Oracle at every correct commit callback: strict ValidateBlockConsensus on another correct node with the committing term's prev block/proof returns nil, the reference validator accepts, the block satisfies the proof's hash. Non-trivial = at commit time the committing node's commit log held a COMMIT from a Byzantine member/outsider or from another view, or the commit is in a view > 0.",
    "C04": SIM_RULE + "Oracle at every correct commit: block height = h, block valid flag set (a block every correct validator rejects is never committed), block satisfies the certified hash, a PREPREPARE for that hash and view signed by the view's leader exists in the history, and some correct member's ValidateBlockProposal approved it or a correct member proposed it. Non-trivial = a consumer-invalid proposal was delivered to a correct node and some correct node committed.",
    "C10": SIM_RULE + "Oracle over each correct node's send stream joined with its reference-validated inbox: <=1 proposal/PREPARE/COMMIT hash per (h,v), PREPARE only for a delivered proposal of that view's leader and never by the leader, COMMIT only with a prepared certificate or commit quorum for exactly (v,hash), VIEW_CHANGE views strictly increasing, no PREPREPARE/PREPARE below the current view. Non-trivial = two different proposals for one (h,v) were delivered, or a duplicated/replayed delivery, or a commit quorum before being prepared. TestC10N: the same send-stream oracle on one real node with valid-then-mutated candidates and the scripted scenarios (early message for an upcoming view, next-height candidates through the cache).",
    "C05": "cases = (config as engine S, adversarial prefix of 0..60 generated steps, per-member remaining timer fraction, 0..3 Byzantine injections placed at generated timer firings of the suffix). Suffix in virtual time: all messages to the deciders D (correct live members at the lowest undecided height, weight >= Q else discarded and counted) are delivered FIFO before the earliest timer (base*2^view, exact integers) fires. Oracle: some member of D commits within |D|*(Vmax-Vmin+2n+4) timer firings, and if the committing view was proposed after the stabilisation point by a member of D, every member of D that stored its proposal commits. Non-trivial = views in D differ at stabilisation, or a member holds a prepared certificate, or a Byzantine injection happened in the suffix. Distinct = the whole case.",
    "C07": "Engine N: one real node in a generated state (committee 4..9, weights, leader order, 0..5 prefix steps: timeouts, valid proposals/NEW_VIEWs, prepares), then 1..3 candidate messages (NEW_VIEW, stand-alone PREPREPARE, VIEW_CHANGE to the node as leader) built VALID by reference builders and given 0..3 mutations from a 43-entry catalogue (header fields, sender, signatures, votes dropped/duplicated/unsigned/re-signed/outsider/other view-height-instance-type, proofs forged/other views/below quorum, embedded proposal fields, other/invalid block). Oracle: any effect (store, send, view move) of a NEW_VIEW implies ref.ValidNewView; PREPARE/adoption in v>0 only via NEW_VIEW; a leader's NEW_VIEW embeds only reference-valid votes of quorum weight. Engine S adds the same oracle as a monitor on every delivery of generated cluster executions. Non-trivial = candidate with exactly one mutation, or an unmutated candidate that was accepted (control). Distinct = the whole case.",
    "C08": "Engine N as C07 with candidates PREPREPARE/PREPARE/COMMIT/VIEW_CHANGE; oracle: any effect (Store* true, send, view move, commit) implies ref.mayInfluence (signature under the claimed sender's key, sender in committee, this instance and height, header tag = envelope, role fits, share valid, not stale, proof valid). Engine S: same oracle on every delivery of generated cluster executions. Non-trivial = exactly one mutation, or accepted control (N); a Byzantine/outsider message was stored (S).",
    "C09": "Engine N: node brought to prepared in generated views then timed out (voter), or fed 1..8 generated VIEW_CHANGE candidates (with genuine proofs of different views, mutated variants: block missing/other, proof dropped/forged/below quorum...) as leader (collector); engine S: every VIEW_CHANGE / NEW_VIEW a correct node emits in generated cluster executions. Oracle: VIEW_CHANGE sent while prepared carries a reference-valid proof of the highest prepared view + matching block; NEW_VIEW embeds exactly the stored votes, each still verifying, proposes the block of the highest-view valid proof, fresh proposal iff no vote carries a proof. Non-trivial = vote sent while prepared, or NEW_VIEW emitted with a proof among its votes (S); exactly one mutation or accepted control (N).",
    "C11": SIM_RULE + "Oracle at every delivery of a message a correct node sent to a correct peer in a matching state (same height and chain; NEW_VIEW: peer view <= v and no proposal stored for v; VIEW_CHANGE: peer leads v and view <= v; PREPARE: peer view <= v; COMMIT: any): the accepting effect happens (adopted+stored+PREPARE / Store* call). Non-trivial = judged delivery in a run where some correct node had stored a Byzantine/outsider message before. Second test (few cases in quick, many in thorough): at emission of every NEW_VIEW / VIEW_CHANGE (and every 6th PREPARE / COMMIT) each correct peer at that height is cloned by replaying its entire input history into a fresh node, the message is delivered to the clone and acceptance is judged there, whether or not the schedule ever delivers it.",
    "C12": "Layer 1 (engine N, in process): a fresh real node in a generated state receives (a) raw content bytes: random, or a valid serialised message of any of the five kinds with 1..3 byte operations (truncate, bit flip, 32-bit word set to 0/1/2^31/2^32-1.., insert, drop); (b) structurally valid messages with 1..3 field mutations incl. views/heights 2^63, 2^64-1, empty ids/signatures, nil blocks, proofs without preparers, NEW_VIEW without votes. Oracle: neither the main-loop step nor the worker step panics, and afterwards the node commits a scripted valid round and reacts to an election trigger. Layer 2 (engine R): the same kinds of hostile bytes through HandleConsensusMessage of the real two-goroutine runtime, then scripted rounds: no 'recovered panic' in the supervisor log, the follow-up round commits (quiescence-judged). Layer 3 (TestC12Proofs): ValidateBlockConsensus / GetMemberIdsFromBlockProof on one instance, sequences of proofs with size words overwritten in place in a reused buffer; only panics are judged there. Thorough adds native fuzzing of layer 1. Non-trivial = the input parses as one of the five message kinds or is a structured message with an extreme field. Distinct = the whole case.",
    "C13": "Engine R: generated op sequences (scripted rounds of the other members, election triggers for the current or stale positions, UpdateState with older/equal/newer heights and bursts, SPI gates hold/ctx on propose/validate/committee/commit, failing commit callbacks, committee lookup failing once) on the real runtime with a 50us (height,view) poller; engine S: generated cluster executions with syncs. Oracle (pure history invariants, true under every interleaving): commit-callback heights strictly increase, new-round heights strictly increase, (h,v) samples never decrease lexicographically, no round <= a committed height, election registrations lexicographically non-decreasing with view 0 first on a new height. Engine N: valid NEW_VIEWs into views up to 2^64-1, then timeouts. Engine R also: huge-gap syncs (2^31..2^63+2^62 ahead), a consumer whose commit callback returns ctx.Err(), the node sitting out one height. Non-trivial = a sync/trigger was issued while an SPI gate was closed, or a commit callback failed (R); a sync happened or >= 2 heights completed (S); a view >= 2^31 was reached (N).",
    "C14": "Engine R op sequences emphasising UpdateState (older/equal/newer, bursts without yielding, 'settle, stale sync, settle' triples) interleaved with rounds and SPI gates. Oracle: UpdateState returns within its deadline; for every call that returned nil with block height >= the height being decided, the node is above that height at final quiescence; rounds not preceded by the node's own successful commit have canBeFirstLeader=false and no view-0 PREPREPARE above height 1; a stale sync between two settled points changes nothing (sends, callbacks, (h,v)). the stale-sync triple also compares the election registration and the storage calls (SPI state); UpdateState may get a per-call context that is cancelled right after the call returned. Engine S: after every sync below the node's height nothing has changed (sends, callbacks, (h,v), election registration, storage). Non-trivial = a burst, or a sync while a gate was closed (R); a stale sync happened (S).",
    "C15": "(a) registry laws: all sequences of length 3 (thorough 4) over {For,CancelOlderThan}x{h 0..2}x{v 0,1,2,2^64-1}+Shutdown exhaustively, random sequences up to 60 ops, against a reference model (a context is Done iff a later CancelOlderThan above it or Shutdown; For errs iff shut down or below the watermark; never hands out a cancelled context). (b) engine R: SPI calls (RequestNewBlockProposal, ValidateBlockProposal, RequestOrderedCommittee, commit callback) blocked on their context or held by the harness while triggers (current / stale), syncs (lower/equal/higher) and shutdown are generated. Oracle: a context cancellation has a cause (trigger/sync/shutdown about that or a later position); after a leave-event and quiescence the call is not still blocked; everything is released by shutdown; a block returned under a cancelled context is never broadcast. (c) engine S monitor: SPI entered with a live context. (c) engine S (TestC15S): cluster executions, half of them with a main-loop event during a consumer call or split events: every consumer call and commit callback gets a live context, a block returned by RequestNewBlockProposal after its context was cancelled is never broadcast. Non-trivial = >= 2 cancels in a registry sequence; a non-pass gate policy was exercised (R); an interrupt or split event happened (S).",
    "C16": "Engine R op sequences with the fake or the real timer-based election trigger (base 2..12 ms), SPI gates, triggers, syncs; cancellation of the run context at a generated op index, then API calls with a cancelled context. Oracle: WaitUntilShutdown returns within 10 s; no commit/new-round callback and no send after it returned during a grace period > 2x the armed timeout; goroutine diff (stacks with a lean-helix-go/govnr frame) empty after settle retries; HandleConsensusMessage/UpdateState/ValidateBlockConsensus with a cancelled context return. Non-trivial = an SPI gate was closed when the context was cancelled.",
    "C17": "cases = sequences of recv(height cur-2..cur+4, instance mine/other, sender me/other) and advance(1..3) incl. re-entrant advance from inside the handler's k-th delivery (what commit does during a cache drain), on the real RawMessageFilter with a real State: all sequences of length 5 (thorough 6) over a 12-letter alphabet exhaustively + random up to 80 ops. Oracle (reference model): every delivery goes to the handler of its own height, my instance, not my own message; never twice; in receive order per height; current-height messages delivered at once; a cached message of H is delivered at the start of H if no message for a higher height was cached before (unless an earlier-received message of H completed H during the drain). handlers may also move the VIEW during a drain (14-letter alphabet). Engine S (TestC17S): cluster executions with membership changes and main-loop events during commits: a node stores / sends for a height only after it reported a round for it and only while it is a member of that height's committee; consumer calls for height H carry the prevBlock the term of H was started from. Non-trivial = a sequence with an advance and a future-height receive; >= 2 heights completed with a membership change or a stored Byzantine message (S).",
    "C19": "(a) formula: bases {1ns,1us,1ms,4s,1h,2^62ns,random<=24h} x views 0..200 dense, powers of two +-1, 2^64-1-k, random: CalcTimeout > 0, = base*2^v exactly when that fits in int64, otherwise >= every lower view's timeout (saturating), non-decreasing. (b) real TimerBasedElectionTrigger (base 2..5 ms, views 0..3): generated Register/Stop/sleep (incl. +-1 ms around the expiry)/reader on-slow-off sequences; history oracle: every trigger read was armed, <= 1 per arming, not before t_before_register + CalcTimeout(v); an armed un-superseded registration delivers within timeout+400ms (a miss counts only three runs in a row). Full node on the real timer left alone: every view lasts >= its timeout (1.5 ms measuring slack), views keep advancing. a receive attempted after Stop() returned obtains no trigger (three runs in a row). (c) real runtime, harness-played timer (TestC19R): the last trigger of a run, if it named the node's position, has moved the node by final quiescence (templates: two triggers in one worker step; stale sync queued behind a busy worker). (d) real runtime, real timer (TestC19RT): commit callbacks that outlast the timeout; a view left by timeout lasted at least its timeout. Non-trivial = base*2^v >= 2^62 (a); a stop/register/sleep placed within 1 ms of an expiry, or a node run (b); a trigger while a gate was closed (c); a commit happened (d).",
    "C20": "cases = messages of all five kinds and block proofs built only through messagesfactory / GenerateLeanHelixBlockProof with the registry key manager: instance/height/view over the 64-bit range (boundary classes), ids / hashes of length 0..256 with arbitrary bytes, 0..20 preparers, 0..20 votes each with optional proof, block present or nil. Oracle: ToConsensusRawMessage -> ToConsensusMessage gives the same type, fields, bytes; nested proofs and votes equal field by field and in number; every signature verifies over the re-read bytes (header Raw(), embedded votes, proof references, proof.BlockRef().Raw()); parsing a copy twice and parsing BuilderFromRaw output give identical accessors. Non-trivial = a variable-length field of length 0 or >= 128, or >= 2 nested votes/preparers, or a 64-bit field >= 2^63. Engine S (TestC20S): every message a correct node emits in cluster executions parses back identically, nested votes equal the stored votes they were built from, every nested signature (votes, proof references, block proofs at the commit callback) verifies over the re-read bytes.",
    "C18": "cases = (committee size n in 4..64, view): dense 0..4n, powers of two +-1, neighbourhoods of 2^31, 2^32, 2^63, 2^64-1-k, random 64-bit; oracle VerifLeaderOf(view, committee) == committee[view mod n] in uint64, no panic, and every window of n consecutive views has n distinct leaders. Non-trivial = view >= 2^31 or within n of 0 or a multiple of n. Distinct = (n, view). Behavioural part (engine N, 20-byte member ids sharing their leading bytes): PREPREPARE / NEW_VIEW / PREPARE / VIEW_CHANGE candidates with the sender swapped to another member (re-signed with that member's key) in views reached by timeouts and NEW_VIEWs; any effect of a message whose sender does not have the leader role the reference assigns (view mod n) is a violation. TestC18Elect: the member at position (view mod n) takes the lead as soon as votes of quorum weight for that view have arrived, also when the view is 1..7 rotations ahead of its own.",
    "C06": "cases = (weight vector, id list A, id list B): exhaustive small vectors x all subset pairs, random vectors n<=16 with weight classes up to 2^64, and boundary-shaped committees [F,W-F],[F+1,W-F-1],[F+1,F+1,W-2F-2],[F,F,W-2F],[F,1,W-F-1] for W around 7..2^64; id lists include duplicates and non-members. Non-trivial = total weight > 2^53 or weight(A) within 1 of f or Q. Distinct = distinct (weights, A, B). Behavioural part (TestC06InUse): one real node, committee 4..9 with weight classes unit / small / with zero-weight members / stake-sized (k*2^58+low bits) / 2^53+k / 1..100, 20-byte ids sharing their leading bytes, 0..2 outsiders; genuinely signed PREPAREs, COMMITs or VIEW_CHANGEs of a generated sender sequence (every member and outsider in a drawn order, with repeats) are delivered one at a time; after each delivery the node has sent COMMIT (prepared) / invoked the commit callback / sent NEW_VIEW (elected) if and only if the distinct committee members counted so far reach Q in big-integer arithmetic. Non-trivial there = some delivery left the counted set one member away from the threshold. TestC06Stateful: one committee slice object whose weights are rewritten in place between calls, interleaved with other committees; every call compared with the reference on the current values.",
}

ASSUMPTIONS = {
    "*": [
        "trusted base: the fakes in /verif/fakes (HMAC key registry with unforgeable signatures, block/validator model, membership, recording storage wrapper, virtual election scheduler), the reference model in /verif/ref, the Go runtime and pgregory.net/rapid",
        "exploration only: 'held on everything explored', never absence of violations",
    ],
    "C05": ["liveness is decided as a bound on timer firings under FIFO zero-latency suffixes in virtual time; other fair schedules are not covered"],
    "C06": ["committee ids pairwise distinct and total weight < 2^64 (the property's own quantifier); the attainability law is checked for W >= 1"],
    "C13": ["the Go scheduler is not controlled: interleavings strictly inside the library are sampled; the invariants checked are interleaving-independent"],
    "C14": ["quiescence detector (/verif/rt) parses runtime.Stack output; a deadline hit is inconclusive, never a violation"],
    "C15": ["election triggers are generated only for the current or older positions (what the node's own timer can produce)"],
    "C16": ["cancellation points are op boundaries plus scheduler timing, not every instruction"],
    "C19": ["real-timer part depends on OS timer and scheduler: only lower bounds and counting rules are exact; liveness misses count only when repeated three times"],
}
