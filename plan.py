# Per-property execution plan for check.py: which tests run, how many cases per shard, how many shards.
# step keys: test, kind (rapid|plain|fuzz), quick=(checks_per_shard, shards), thorough=(...), race, timeout, env, tier

PLAN = {
    "C01": [dict(test="TestC01", quick=(2500, 16), thorough=(60000, 16), timeout_thorough=7200)],
    "C06": [
        dict(test="TestC06Exhaustive", kind="plain", quick=(0, 1), thorough=(0, 1)),
        dict(test="TestC06Random", quick=(15000, 4), thorough=(300000, 8)),
        dict(test="TestC06Boundary", quick=(15000, 4), thorough=(300000, 8)),
    ],
}

RULES = {
    "C06": "cases = (weight vector, id list A, id list B): exhaustive small vectors x all subset pairs, random vectors n<=16 with weight classes up to 2^64, and boundary-shaped committees [F,W-F],[F+1,W-F-1],[F+1,F+1,W-2F-2],[F,F,W-2F],[F,1,W-F-1] for W around 7..2^64; id lists include duplicates and non-members. Non-trivial = total weight > 2^53 or weight(A) within 1 of f or Q. Distinct = distinct (weights, A, B).",
}

ASSUMPTIONS = {
    "*": [
        "trusted base: the fakes in /verif/fakes (HMAC key registry with unforgeable signatures, block/validator model, membership, recording storage wrapper, virtual election scheduler), the reference model in /verif/ref, the Go runtime and pgregory.net/rapid",
        "exploration only: 'held on everything explored', never absence of violations",
    ],
    "C06": ["committee ids pairwise distinct and total weight < 2^64 (the property's own quantifier); the attainability law is checked for W >= 1"],
}
