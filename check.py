#!/usr/bin/env python3
"""Driver for the lean-helix-go property checks.

  ./check.py <ID> [quick|thorough]     run one property's check (tier also from $VERIF_TIER, seed from $VERIF_SEED)
  ./check.py --replay <file>           re-run one saved case against the current /repo tree
  ./check.py --setup                   warm the build cache (MANIFEST.setup_cmd)

Exit codes: 0 = property held on everything explored (KNOWN-FINDING lines may be printed),
            1 = violation (a line "VIOLATION property=<id> replay=<path>" is printed),
            2 = infrastructure problem / inconclusive (never a verdict about the property).
"""
import glob
import hashlib
import json
import os
import shutil
import subprocess
import sys
import time

ROOT = os.path.dirname(os.path.abspath(__file__))
BUILD = os.path.join(ROOT, ".build")
ENV = dict(os.environ, GOFLAGS="-mod=mod", GOPROXY="off", GOSUMDB="off", GOTOOLCHAIN="local", CGO_ENABLED=os.environ.get("CGO_ENABLED", "1"))
NCPU = os.cpu_count() or 4

sys.path.insert(0, ROOT)
from plan import PLAN, RULES, ASSUMPTIONS  # noqa: E402


def log(*a):
    print(*a, file=sys.stderr, flush=True)


def modfile_args():
    """VERIF_REPO=<dir> builds against another copy of the repository (used for sensitivity runs in scratch worktrees);
    by default the replace directive in go.mod points at /repo."""
    repo = os.environ.get("VERIF_REPO")
    if not repo:
        return []
    os.makedirs(BUILD, exist_ok=True)
    tag = hashlib.sha256(repo.encode()).hexdigest()[:10]
    mod = os.path.join(BUILD, "go.%s.mod" % tag)
    with open(os.path.join(ROOT, "go.mod")) as f:
        text = f.read().replace("=> /repo", "=> " + os.path.abspath(repo))
    with open(mod, "w") as f:
        f.write(text)
    shutil.copy(os.path.join(ROOT, "go.sum"), mod[:-4] + ".sum")
    return ["-modfile", mod]


def build(race=False):
    os.makedirs(BUILD, exist_ok=True)
    suffix = ""
    if os.environ.get("VERIF_REPO"):
        suffix = "." + hashlib.sha256(os.environ["VERIF_REPO"].encode()).hexdigest()[:10]
    out = os.path.join(BUILD, ("props.race%s.test" if race else "props%s.test") % suffix)
    cmd = ["go", "test", "-c", "-tags", "verif", "-o", out] + modfile_args()
    if race:
        cmd.append("-race")
    cmd.append("./props")
    t0 = time.time()
    p = subprocess.run(cmd, cwd=ROOT, env=ENV, stdout=subprocess.PIPE, stderr=subprocess.STDOUT, text=True)
    if p.returncode != 0:
        log("BUILD FAILED (the harness no longer compiles against /repo):\n" + p.stdout[-6000:])
        sys.exit(2)
    log("built %s in %.1fs" % (os.path.basename(out), time.time() - t0))
    # -mod=mod must not have touched /repo
    return out


def mix_seed(seed, step, shard):
    s = (seed * 1000003 + step * 104729 + shard * 7919 + 12345) % (2**31 - 1)
    return s or 1


def load_known():
    p = os.path.join(ROOT, "known_findings.json")
    try:
        with open(p) as f:
            return json.load(f)
    except Exception:
        return {"findings": [], "fixed": []}


def run_replay(binary, path, repeat=1, timeout=600):
    env = dict(ENV, VERIF_REPLAY_FILE=os.path.abspath(path), VERIF_REPLAY_REPEAT=str(repeat), VERIF_KNOWN="", VERIF_IGNORE_KNOWN="1")
    try:
        p = subprocess.run([binary, "-test.run", "^TestReplay$", "-test.timeout", "%ds" % timeout], cwd=os.path.join(ROOT, "props"), env=env,
                           stdout=subprocess.PIPE, stderr=subprocess.STDOUT, text=True, timeout=timeout + 30)
    except subprocess.TimeoutExpired:
        return "timeout", ""
    out = p.stdout
    if "REPLAY-VIOLATION" in out:
        return "violation", out
    if "REPLAY-OK" in out and p.returncode == 0:
        return "ok", out
    return "error", out


def save_found(prop, src):
    os.makedirs(os.path.join(ROOT, "replays", "found"), exist_ok=True)
    with open(src, "rb") as f:
        data = f.read()
    try:
        kind = json.loads(data).get("kind", "x")
    except Exception:
        kind = "x"
    kind = "".join(ch if ch.isalnum() or ch in "-_" else "_" for ch in kind)[:40]
    dst = os.path.join(ROOT, "replays", "found", "%s-%s-%s.json" % (prop, kind, hashlib.sha256(data).hexdigest()[:10]))
    with open(dst, "wb") as f:
        f.write(data)
    return dst


def main():
    args = sys.argv[1:]
    if not args:
        print(__doc__)
        sys.exit(2)
    if args[0] == "--setup":
        build(False)
        # the trusted base has its own unit tests (key registry laws, reference quorum arithmetic against brute force)
        p = subprocess.run(["go", "test", "-count=1", "./fakes/", "./ref/"] , cwd=ROOT, env=ENV, stdout=subprocess.PIPE, stderr=subprocess.STDOUT, text=True)
        if p.returncode != 0:
            log("TRUSTED BASE SELF-TEST FAILED:\n" + p.stdout[-4000:])
            sys.exit(2)
        sys.exit(0)
    if args[0] == "--replay":
        binary = build(False)
        st, out = run_replay(binary, args[1], repeat=int(os.environ.get("VERIF_REPLAY_REPEAT", "1")))
        print(out[-4000:])
        if st == "violation":
            prop = json.load(open(args[1])).get("property", "?")
            print("VIOLATION property=%s replay=%s" % (prop, os.path.abspath(args[1])))
            sys.exit(1)
        sys.exit(0 if st == "ok" else 2)

    prop = args[0]
    tier = args[1] if len(args) > 1 else os.environ.get("VERIF_TIER", "quick")
    if tier not in ("quick", "thorough"):
        tier = "quick"
    seed = int(os.environ.get("VERIF_SEED", "1") or "1")
    if prop not in PLAN:
        log("unknown property", prop)
        sys.exit(2)
    t0 = time.time()
    steps = PLAN[prop]
    need_race = tier == "thorough" and any(s.get("race") for s in steps)
    binary = build(False)
    race_binary = build(True) if need_race else None

    run_dir = os.path.join(BUILD, "run-%s-%d" % (prop, os.getpid()))
    shutil.rmtree(run_dir, ignore_errors=True)
    stats_dir = os.path.join(run_dir, "stats")
    replay_dir = os.path.join(run_dir, "replay")
    os.makedirs(stats_dir)
    os.makedirs(replay_dir)
    for d in glob.glob(os.path.join(ROOT, "props", "testdata", "rapid")):
        shutil.rmtree(d, ignore_errors=True)

    known = load_known()
    open_known = [e for e in known.get("findings", []) if e.get("property") == prop and e.get("status", "open") == "open"]
    verdict_lines = []
    violations = []
    infra = []

    # 1. replays (plain regression, bypassing rapid)
    known_replays = {os.path.normpath(os.path.join(ROOT, e["replay"])): e for e in open_known if e.get("replay")}
    n_replays = 0
    for path in sorted(glob.glob(os.path.join(ROOT, "replays", prop + "-*.json"))):
        n_replays += 1
        st, out = run_replay(binary, path)
        if st == "violation":
            e = known_replays.get(os.path.normpath(path))
            if e is not None:
                verdict_lines.append("KNOWN-FINDING: property=%s %s" % (prop, e.get("description", e.get("key", ""))))
            else:
                violations.append(path)
                log(out[-3000:])
        elif st != "ok":
            infra.append("replay %s: %s\n%s" % (path, st, out[-2000:]))

    # 2. search
    procs = []
    base_env = dict(ENV, VERIF_TIER=tier, VERIF_STATS_DIR=stats_dir, VERIF_REPLAY_DIR=replay_dir,
                    VERIF_KNOWN=os.path.join(ROOT, "known_findings.json"), VERIF_SEED=str(seed))
    budget = 0
    for si, s in enumerate(steps):
        if s.get("tier") and s["tier"] != tier:
            continue
        kind = s.get("kind", "rapid")
        if kind == "fuzz":
            continue
        checks, shards = s[tier] if tier in s else s["quick"]
        tmo = s.get("timeout_" + tier, s.get("timeout", 900 if tier == "quick" else 3600))
        budget = max(budget, tmo)
        binp = race_binary if (s.get("race") and tier == "thorough" and race_binary) else binary
        for sh in range(shards if kind == "rapid" else 1):
            env = dict(base_env, VERIF_SHARD="%d_%d" % (si, sh), VERIF_SHARDS=str(shards), VERIF_SHARD_INDEX=str(sh))
            if s.get("env"):
                env.update(s["env"])
            cmd = [binp, "-test.run", "^%s$" % s["test"], "-test.timeout", "%ds" % tmo, "-test.count", "1"]
            if kind == "rapid":
                cmd += ["-rapid.checks", str(checks), "-rapid.seed", str(mix_seed(seed, si, sh)), "-rapid.nofailfile",
                        "-rapid.shrinktime", s.get("shrinktime", "20s")]
            elif checks:
                env["VERIF_CASES"] = str(checks)
            procs.append(dict(step=s, shard=sh, cmd=cmd, env=env, tmo=tmo))

    running = []
    results = []
    queue = list(procs)
    maxpar = int(os.environ.get("VERIF_PAR", str(NCPU)))
    while queue or running:
        while queue and len(running) < maxpar:
            pr = queue.pop(0)
            pr["out"] = open(os.path.join(run_dir, "out-%s-%d.txt" % (pr["step"]["test"], pr["shard"])), "w+")
            pr["p"] = subprocess.Popen(pr["cmd"], cwd=os.path.join(ROOT, "props"), env=pr["env"], stdout=pr["out"], stderr=subprocess.STDOUT)
            pr["t0"] = time.time()
            running.append(pr)
        time.sleep(0.05)
        for pr in list(running):
            rc = pr["p"].poll()
            if rc is None:
                if time.time() - pr["t0"] > pr["tmo"] + 60:
                    pr["p"].kill()
                    pr["rc"] = "watchdog"
                    running.remove(pr)
                    results.append(pr)
                continue
            pr["rc"] = rc
            running.remove(pr)
            results.append(pr)

    for pr in results:
        pr["out"].seek(0)
        text = pr["out"].read()
        pr["out"].close()
        rc = pr["rc"]
        if rc == 0:
            continue
        name = "%s shard %d" % (pr["step"]["test"], pr["shard"])
        if rc == "watchdog" or "panic: test timed out" in text:
            infra.append("%s: timed out (inconclusive)" % name)
            continue
        rp = os.path.join(replay_dir, "%s.%s.json" % (prop, pr["env"]["VERIF_SHARD"]))
        if os.path.exists(rp):
            violations.append(save_found(prop, rp))
            if len(violations) <= 2:
                log("---- %s failed:\n%s" % (name, text[-3000:]))
        else:
            infra.append("%s: exit %s without a replay file\n%s" % (name, rc, text[-3000:]))

    # 3. native fuzzing (thorough only)
    fuzz_info = []
    if tier == "thorough":
        for s in steps:
            if s.get("kind") != "fuzz":
                continue
            ft = int(os.environ.get("VERIF_FUZZTIME", s.get("fuzztime", 120)))
            fdir = os.path.join(ROOT, "props", "testdata", "fuzz", s["test"])
            before = set(os.listdir(fdir)) if os.path.isdir(fdir) else set()
            env = dict(base_env, VERIF_SHARD="fuzz")
            cmd = ["go", "test", "-tags", "verif"] + modfile_args() + ["-run", "^$", "-fuzz", "^%s$" % s["test"], "-fuzztime", "%ds" % ft, "./props"]
            try:
                p = subprocess.run(cmd, cwd=ROOT, env=env, stdout=subprocess.PIPE, stderr=subprocess.STDOUT, text=True, timeout=ft + 600)
                out, rc = p.stdout, p.returncode
            except subprocess.TimeoutExpired:
                out, rc = "timeout", "timeout"
            after = set(os.listdir(fdir)) if os.path.isdir(fdir) else set()
            new = sorted(after - before)
            execs = 0
            for line in out.splitlines():
                if "execs:" in line:
                    try:
                        execs = int(line.split("execs:")[1].split()[0])
                    except Exception:
                        pass
            fuzz_info.append({"target": s["test"], "fuzztime_s": ft, "execs": execs, "new_crashers": new})
            if rc == "timeout":
                infra.append("fuzz %s: timed out" % s["test"])
            elif rc != 0:
                rp = os.path.join(replay_dir, "%s.fuzz.json" % prop)
                if os.path.exists(rp):
                    violations.append(save_found(prop, rp))
                elif new:
                    # crash without oracle report: wrap the crasher as a replay
                    src = os.path.join(fdir, new[0])
                    wrap = os.path.join(replay_dir, "fuzzcrash.json")
                    json.dump({"property": prop, "kind": "fuzz-crash", "detail": out[-1500:], "replayer": s["test"],
                               "case": {"corpus_file": open(src).read()}}, open(wrap, "w"))
                    violations.append(save_found(prop, wrap))
                else:
                    infra.append("fuzz %s: exit %s\n%s" % (s["test"], rc, out[-3000:]))
                log(out[-3000:])
            for f in new:  # keep testdata/fuzz clean between campaigns
                try:
                    os.remove(os.path.join(fdir, f))
                except OSError:
                    pass

    # 4. merge evidence
    ev = merge(prop, tier, seed, stats_dir, time.time() - t0, len(violations), n_replays, fuzz_info, known)
    for k in sorted(ev.get("coverage", {}).get("known_findings_hit", {})):
        e = next((e for e in open_known if e.get("key") == k), None)
        line = "KNOWN-FINDING: property=%s %s" % (prop, (e or {}).get("description", k))
        if line not in verdict_lines:
            verdict_lines.append(line)

    for l in verdict_lines:
        print(l)
    if not os.environ.get("VERIF_KEEP"):
        shutil.rmtree(run_dir, ignore_errors=True)
        if os.environ.get("VERIF_REPO"):  # sensitivity run against a scratch worktree: its binaries and modfiles are of no further use
            tag = hashlib.sha256(os.environ["VERIF_REPO"].encode()).hexdigest()[:10]
            for f in ("props.%s.test" % tag, "props.race.%s.test" % tag, "go.%s.mod" % tag, "go.%s.sum" % tag):
                try:
                    os.remove(os.path.join(BUILD, f))
                except OSError:
                    pass
    if violations:
        for v in violations[:1]:
            print("VIOLATION property=%s replay=%s" % (prop, v))
        sys.exit(1)
    if infra:
        for i in infra:
            log("INFRA:", i)
        sys.exit(2)
    if ev is None or ev["coverage"]["evaluations"] < 1:
        log("INFRA: nothing was explored")
        sys.exit(2)
    print("OK property=%s tier=%s seed=%d evaluations=%d distinct_nontrivial=%d wall=%.1fs" % (
        prop, tier, seed, ev["coverage"]["evaluations"], ev["coverage"]["distinct_nontrivial"], ev["wall_s"]))
    sys.exit(0)


def merge(prop, tier, seed, stats_dir, wall, nviol, n_replays, fuzz_info, known):
    evals = 0
    sigs = set()
    classes, excluded, knownhit, exhaustive, extra = {}, {}, {}, {}, {}
    inconcl = 0
    samples = []
    for path in sorted(glob.glob(os.path.join(stats_dir, prop + ".*.json"))):
        try:
            d = json.load(open(path))
        except Exception:
            continue
        evals += d.get("evaluations", 0)
        sigs.update(d.get("nontrivial") or [])
        inconcl += d.get("inconclusive", 0)
        for src, dst in ((d.get("classes"), classes), (d.get("excluded"), excluded), (d.get("known"), knownhit), (d.get("exhaustive"), exhaustive)):
            for k, v in (src or {}).items():
                dst[k] = dst.get(k, 0) + v
        for k, v in (d.get("extra") or {}).items():
            if isinstance(v, (int, float)) and isinstance(extra.get(k), (int, float)):
                extra[k] = max(extra[k], v)
            else:
                extra.setdefault(k, v)
        for s in d.get("samples") or []:
            if len(samples) < 6:
                samples.append(s)
    cov = {
        "evaluations": int(evals),
        "distinct_nontrivial": len(sigs),
        "rule": RULES.get(prop, ""),
        "samples": samples,
        "classes": classes,
        "excluded": excluded,
        "known_findings_hit": knownhit,
        "inconclusive": int(inconcl),
        "replays_run": n_replays,
    }
    if exhaustive:
        cov["exhaustive_parts"] = exhaustive
        cov["exhaustive"] = False  # the enumerated sub-spaces are complete; the property's full domain is not finite
    if extra:
        cov["extra"] = extra
    if fuzz_info:
        cov["native_fuzz"] = fuzz_info
    ev = {
        "property_id": prop,
        "tier": tier,
        "seed": seed,
        "level": "exploration",
        "coverage": cov,
        "assumptions": ASSUMPTIONS.get("*", []) + ASSUMPTIONS.get(prop, []),
        "wall_s": round(wall, 2),
        "violations": nviol,
    }
    evdir = os.environ.get("VERIF_EVIDENCE_DIR", os.path.join(ROOT, "evidence"))
    os.makedirs(evdir, exist_ok=True)
    with open(os.path.join(evdir, prop + ".json"), "w") as f:
        json.dump(ev, f, indent=1, sort_keys=True, default=str)
    return ev


if __name__ == "__main__":
    main()
