package ref

import (
	"math/big"
	"testing"

	"github.com/orbs-network/lean-helix-go/services/interfaces"
	"github.com/orbs-network/lean-helix-go/spec/types/go/primitives"
	"pgregory.net/rapid"
)

// The reference quorum arithmetic against a brute-force statement of the same definitions (trusted base of the oracles).

func TestReferenceQuorumAgainstBruteForce(t *testing.T) {
	rapid.Check(t, func(t *rapid.T) {
		n := rapid.IntRange(1, 7).Draw(t, "n")
		com := make([]interfaces.CommitteeMember, n)
		total := 0
		for i := range com {
			w := rapid.IntRange(0, 6).Draw(t, "w")
			total += w
			com[i] = interfaces.CommitteeMember{Id: primitives.MemberId([]byte{'m', byte('0' + i)}), Weight: primitives.MemberWeight(w)}
		}
		if total == 0 {
			return
		}
		f := (total - 1) / 3
		if F(com).Cmp(big.NewInt(int64(f))) != 0 || Q(com).Cmp(big.NewInt(int64(total-f))) != 0 {
			t.Fatalf("F/Q wrong for total %d", total)
		}
		// two-quorum intersection and attainability by enumeration of all subsets
		weightOf := func(mask int) int {
			w := 0
			for i := 0; i < n; i++ {
				if mask>>uint(i)&1 == 1 {
					w += int(com[i].Weight)
				}
			}
			return w
		}
		idsOf := func(mask int) []primitives.MemberId {
			var out []primitives.MemberId
			for i := 0; i < n; i++ {
				if mask>>uint(i)&1 == 1 {
					out = append(out, com[i].Id, com[i].Id) // duplicates never add weight
				}
			}
			return append(out, primitives.MemberId("stranger"))
		}
		for a := 0; a < 1<<uint(n); a++ {
			if IsQuorum(idsOf(a), com) != (weightOf(a) >= total-f) || HasHonest(idsOf(a), com) != (weightOf(a) > f) {
				t.Fatalf("IsQuorum/HasHonest differ from the definition for subset %b", a)
			}
			if weightOf(a) <= f && !IsQuorum(idsOf((1<<uint(n)-1)&^a), com) {
				t.Fatalf("complement of an f-weight subset is not a quorum")
			}
			for b := 0; b < 1<<uint(n); b++ {
				if IsQuorum(idsOf(a), com) && IsQuorum(idsOf(b), com) && weightOf(a&b) <= f {
					t.Fatalf("two quorums intersect in weight <= f")
				}
			}
		}
		// leader: position view mod n, also for views >= 2^63
		for _, v := range []uint64{0, 1, uint64(n), 1 << 63, ^uint64(0)} {
			if !Leader(primitives.View(v), com).Equal(com[v%uint64(n)].Id) {
				t.Fatalf("leader of view %d", v)
			}
		}
	})
}
