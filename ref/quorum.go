// Package ref is the independent reference model: oracles written from the property statements
// (and spec/behaviors/lean-helix-lib), never transliterated from the implementation.
package ref

import (
	"math/big"

	"github.com/orbs-network/lean-helix-go/services/interfaces"
	"github.com/orbs-network/lean-helix-go/spec/types/go/primitives"
)

var (
	one   = big.NewInt(1)
	three = big.NewInt(3)
)

// Total weight W of a committee.
func Total(c []interfaces.CommitteeMember) *big.Int {
	w := new(big.Int)
	for _, m := range c {
		w.Add(w, new(big.Int).SetUint64(uint64(m.Weight)))
	}
	return w
}

// F = floor((W-1)/3) (0 for W = 0).
func F(c []interfaces.CommitteeMember) *big.Int {
	w := Total(c)
	if w.Sign() == 0 {
		return new(big.Int)
	}
	f := new(big.Int).Sub(w, one)
	return f.Div(f, three)
}

// Q = W - floor((W-1)/3). For W = 0 the formula read literally gives floor(-1/3) = -1 and Q = 1: a committee without
// weight has no attainable quorum (and, whatever one makes of f there, a certificate nobody of weight signed is not a quorum).
func Q(c []interfaces.CommitteeMember) *big.Int {
	if Total(c).Sign() == 0 {
		return new(big.Int).Set(one)
	}
	return new(big.Int).Sub(Total(c), F(c))
}

func IsMember(c []interfaces.CommitteeMember, id primitives.MemberId) bool {
	for _, m := range c {
		if m.Id.Equal(id) {
			return true
		}
	}
	return false
}

// Weight of the set of distinct committee members named in ids (duplicates, non-members add nothing).
func Weight(ids []primitives.MemberId, c []interfaces.CommitteeMember) *big.Int {
	w := new(big.Int)
	seen := map[string]bool{}
	for _, id := range ids {
		k := string(id)
		if seen[k] {
			continue
		}
		seen[k] = true
		for _, m := range c {
			if m.Id.Equal(id) {
				w.Add(w, new(big.Int).SetUint64(uint64(m.Weight)))
				break // committee ids are pairwise distinct by precondition
			}
		}
	}
	return w
}

func IsQuorum(ids []primitives.MemberId, c []interfaces.CommitteeMember) bool {
	return Weight(ids, c).Cmp(Q(c)) >= 0
}

func HasHonest(ids []primitives.MemberId, c []interfaces.CommitteeMember) bool {
	return Weight(ids, c).Cmp(F(c)) > 0
}

// Leader of a view: committee[view mod n] in unsigned arithmetic.
func Leader(v primitives.View, c []interfaces.CommitteeMember) primitives.MemberId {
	return c[uint64(v)%uint64(len(c))].Id
}
