package ref

import (
	"crypto/sha256"
	"encoding/binary"
	"fmt"
	"math/big"
	"strconv"

	"github.com/orbs-network/lean-helix-go/services/interfaces"
	"github.com/orbs-network/lean-helix-go/spec/types/go/primitives"
	"github.com/orbs-network/lean-helix-go/spec/types/go/protocol"

	"verif/fakes"
)

// Env is what the reference predicates need to know about the world: who owns which key and which instance this is.
type Env struct {
	Reg      *fakes.Registry
	Instance primitives.InstanceId
}

// Verdict of a reference predicate: OK, or the first clause that failed (Why is a stable short identifier).
type Verdict struct {
	OK  bool
	Why string
}

func ok() Verdict                                { return Verdict{OK: true} }
func no(format string, a ...interface{}) Verdict { return Verdict{Why: fmt.Sprintf(format, a...)} }
func (e *Env) sigOK(h primitives.BlockHeight, content []byte, s *protocol.SenderSignature) bool {
	if s == nil {
		return false
	}
	return e.Reg.VerifyMsg(h, content, s.MemberId(), s.Signature())
}

func hasProof(p *protocol.PreparedProof) bool { return p != nil && len(p.Raw()) > 0 }

// ProofInfo describes a prepared proof that passed ValidPreparedProof.
type ProofInfo struct {
	View primitives.View
	Hash primitives.BlockHash
}

// ValidPreparedProof: PREPREPARE ref and PREPARE ref agree on (instance, height h, view < targetView, hash) and carry
// the right type tags; the PREPREPARE is signed by the leader of that view; the preparers are pairwise distinct
// committee members other than that leader, each with a valid signature; leader + preparers reach quorum weight.
func (e *Env) ValidPreparedProof(p *protocol.PreparedProof, h primitives.BlockHeight, targetView primitives.View, com []interfaces.CommitteeMember) (Verdict, *ProofInfo) {
	if !hasProof(p) {
		return no("no-proof"), nil
	}
	pp, pr := p.PreprepareBlockRef(), p.PrepareBlockRef()
	pps := p.PreprepareSender()
	if pp == nil || pr == nil || pps == nil || len(pp.Raw()) == 0 || len(pr.Raw()) == 0 || len(pps.Raw()) == 0 {
		return no("proof-incomplete"), nil
	}
	// The type tags of the two block references are deliberately not part of this predicate (DESIGN.md section 10, false
	// alarm "proof-types"): the only genuine signatures that exist over the same (instance, height, view, hash) with another
	// tag are COMMITs, and a correct member commits only after being prepared, so they prove at least as much.
	if pp.InstanceId() != pr.InstanceId() {
		return no("proof-instance-mismatch"), nil
	}
	if pp.InstanceId() != e.Instance {
		return no("proof-instance"), nil
	}
	if pp.BlockHeight() != h || pr.BlockHeight() != h {
		return no("proof-height"), nil
	}
	if pp.View() != pr.View() {
		return no("proof-view-mismatch"), nil
	}
	if pp.View() >= targetView {
		return no("proof-view-not-earlier"), nil
	}
	if !pp.BlockHash().Equal(pr.BlockHash()) {
		return no("proof-hash-mismatch"), nil
	}
	leader := Leader(pp.View(), com)
	if !pps.MemberId().Equal(leader) {
		return no("proof-pp-not-leader"), nil
	}
	if !e.sigOK(h, pp.Raw(), pps) {
		return no("proof-pp-signature"), nil
	}
	ids := []primitives.MemberId{leader}
	seen := map[string]bool{}
	it := p.PrepareSendersIterator()
	for it.HasNext() {
		s := it.NextPrepareSenders()
		id := s.MemberId()
		if id.Equal(leader) {
			return no("proof-prepare-by-leader"), nil
		}
		if !IsMember(com, id) {
			return no("proof-preparer-not-member"), nil
		}
		if seen[string(id)] {
			return no("proof-duplicate-preparer"), nil
		}
		seen[string(id)] = true
		if !e.sigOK(h, pr.Raw(), s) {
			return no("proof-prepare-signature"), nil
		}
		ids = append(ids, id)
	}
	if !IsQuorum(ids, com) {
		return no("proof-below-quorum"), nil
	}
	return ok(), &ProofInfo{View: pp.View(), Hash: pp.BlockHash()}
}

// voteHeaderOK: a VIEW_CHANGE content for exactly (instance, h, v) with the VIEW_CHANGE type tag, signed by a committee member.
func (e *Env) voteHeaderOK(vc *protocol.ViewChangeMessageContent, h primitives.BlockHeight, v primitives.View, com []interfaces.CommitteeMember) Verdict {
	if vc == nil || len(vc.Raw()) == 0 {
		return no("vote-empty")
	}
	hd := vc.SignedHeader()
	if hd.MessageType() != protocol.LEAN_HELIX_VIEW_CHANGE {
		return no("type-tag")
	}
	if hd.InstanceId() != e.Instance {
		return no("vote-instance")
	}
	if hd.BlockHeight() != h {
		return no("vote-height")
	}
	if hd.View() != v {
		return no("vote-view")
	}
	if !IsMember(com, vc.Sender().MemberId()) {
		return no("vote-sender-not-member")
	}
	if !e.sigOK(h, hd.Raw(), vc.Sender()) {
		return no("vote-signature")
	}
	return ok()
}

// ValidVote: an authentic vote (voteHeaderOK) whose prepared proof, if any, is valid.
func (e *Env) ValidVote(vc *protocol.ViewChangeMessageContent, h primitives.BlockHeight, v primitives.View, com []interfaces.CommitteeMember) (Verdict, *ProofInfo) {
	if vd := e.voteHeaderOK(vc, h, v, com); !vd.OK {
		return vd, nil
	}
	if hasProof(vc.SignedHeader().PreparedProof()) {
		pv, info := e.ValidPreparedProof(vc.SignedHeader().PreparedProof(), h, v, com)
		if !pv.OK {
			return pv, nil
		}
		return ok(), info
	}
	return ok(), nil
}

// AuthenticVote is ValidVote without the proof clause. The returned info is non-nil only if the vote carries a VALID
// prepared proof (an invalid proof is simply not counted); invalidProof reports that it carried an invalid one.
func (e *Env) AuthenticVote(vc *protocol.ViewChangeMessageContent, h primitives.BlockHeight, v primitives.View, com []interfaces.CommitteeMember) (vd Verdict, info *ProofInfo, invalidProof bool) {
	if vd := e.voteHeaderOK(vc, h, v, com); !vd.OK {
		return vd, nil, false
	}
	if hasProof(vc.SignedHeader().PreparedProof()) {
		pv, info := e.ValidPreparedProof(vc.SignedHeader().PreparedProof(), h, v, com)
		if !pv.OK {
			return ok(), nil, true
		}
		return ok(), info, false
	}
	return ok(), nil, false
}

// NewViewInfo summarises a NEW_VIEW that passed ValidNewView.
type NewViewInfo struct {
	Locked bool // some vote carries a (valid) proof: proposal must be the proven block
	Hash   primitives.BlockHash
}

// ValidNewView is the C07 certificate predicate for a NEW_VIEW received at height h by a node of committee com:
// signed by leader(v); votes each for (instance,h,v), from pairwise distinct committee members, EACH with a valid
// signature, total weight >= Q; embedded proposal for (instance,h,v) with the PREPREPARE tag signed by leader(v); its hash
// is satisfied by the attached block; it equals the hash certified by the highest-view valid prepared proof among the
// votes, or - if no vote carries a proof - consumerOK(block) holds.
// A vote with a valid signature whose proof is invalid still counts as a vote; only VALID proofs decide the proposal.
func (e *Env) ValidNewView(nv *interfaces.NewViewMessage, h primitives.BlockHeight, com []interfaces.CommitteeMember, commitmentOK func(block interfaces.Block, hash primitives.BlockHash) bool, consumerOK func(block interfaces.Block, hash primitives.BlockHash) bool) (Verdict, *NewViewInfo) {
	c := nv.Content()
	hd := c.SignedHeader()
	if hd.MessageType() != protocol.LEAN_HELIX_NEW_VIEW {
		return no("type-tag"), nil
	}
	if hd.InstanceId() != e.Instance {
		return no("nv-instance"), nil
	}
	if hd.BlockHeight() != h {
		return no("nv-height"), nil
	}
	v := hd.View()
	if v == 0 {
		return no("nv-view-zero"), nil
	}
	leader := Leader(v, com)
	if !c.Sender().MemberId().Equal(leader) {
		return no("nv-not-leader"), nil
	}
	if !e.sigOK(h, hd.Raw(), c.Sender()) {
		return no("nv-signature"), nil
	}
	var ids []primitives.MemberId
	seen := map[string]bool{}
	var best *ProofInfo
	firstBad := ""
	it := hd.ViewChangeConfirmationsIterator()
	for it.HasNext() {
		vote := it.NextViewChangeConfirmations()
		vv, info, _ := e.AuthenticVote(vote, h, v, com)
		if !vv.OK {
			// A confirmation that is not an authentic vote of a committee member for (instance,h,v) simply does not count:
			// the certificate is valid if the votes that DO qualify are pairwise distinct members of quorum weight.
			firstBad = vv.Why
			continue
		}
		id := vote.Sender().MemberId()
		if seen[string(id)] {
			continue // counted once
		}
		seen[string(id)] = true
		ids = append(ids, id)
		if info != nil && (best == nil || info.View > best.View) {
			best = info
		}
	}
	if !IsQuorum(ids, com) {
		if firstBad != "" {
			return no("nv-votes-below-quorum:" + firstBad), nil
		}
		return no("nv-votes-below-quorum"), nil
	}
	pp := c.Message()
	if pp == nil || len(pp.Raw()) == 0 {
		return no("nv-no-proposal"), nil
	}
	ph := pp.SignedHeader()
	// Type tag and instance id of the EMBEDDED proposal header are deliberately not part of this predicate: the NEW_VIEW
	// header around it is signed by the same leader for this instance, so they add nothing an attacker could not sign itself
	// (see DESIGN.md section 10, false alarm "nvpp-type").
	if ph.BlockHeight() != h || ph.View() != v {
		return no("nv-pp-height-view"), nil
	}
	if !pp.Sender().MemberId().Equal(leader) {
		return no("nv-pp-not-leader"), nil
	}
	if !e.sigOK(h, ph.Raw(), pp.Sender()) {
		return no("nv-pp-signature"), nil
	}
	if !commitmentOK(nv.Block(), ph.BlockHash()) {
		return no("nv-block-hash-mismatch"), nil
	}
	if best != nil {
		if !ph.BlockHash().Equal(best.Hash) {
			return no("nv-not-highest-proven-block"), nil
		}
		return ok(), &NewViewInfo{Locked: true, Hash: ph.BlockHash()}
	}
	if !consumerOK(nv.Block(), ph.BlockHash()) {
		return no("nv-fresh-block-consumer-invalid"), nil
	}
	return ok(), &NewViewInfo{Hash: ph.BlockHash()}
}

// ValidBlockProof is the C02 predicate: a COMMIT certificate for this instance, the block's height and a hash the block
// satisfies, signed by pairwise distinct members of the committee with valid signatures and weight >= Q (strict) or > F (soft),
// whose random-seed signature verifies against the seed derived from the previous proof.
func (e *Env) ValidBlockProof(proofBytes []byte, block interfaces.Block, com []interfaces.CommitteeMember, prevProofBytes []byte, soft bool,
	commitmentOK func(block interfaces.Block, hash primitives.BlockHash) bool) (vd Verdict) {
	defer func() {
		if r := recover(); r != nil { // the shared byte-level readers panic on malformed bytes: unreadable means invalid
			vd = no("malformed")
		}
	}()
	if block == nil {
		return no("nil-block")
	}
	if len(proofBytes) == 0 {
		return no("empty-proof")
	}
	p := protocol.BlockProofReader(proofBytes)
	ref := p.BlockRef()
	if ref == nil || len(ref.Raw()) == 0 {
		return no("no-blockref")
	}
	if ref.MessageType() != protocol.LEAN_HELIX_COMMIT {
		return no("type-tag")
	}
	if ref.InstanceId() != e.Instance {
		return no("instance")
	}
	if ref.BlockHeight() != block.Height() {
		return no("height")
	}
	if !commitmentOK(block, ref.BlockHash()) {
		return no("hash")
	}
	var ids []primitives.MemberId
	seen := map[string]bool{}
	it := p.NodesIterator()
	for it.HasNext() {
		s := it.NextNodes()
		id := s.MemberId()
		if !IsMember(com, id) {
			return no("signer-not-member")
		}
		if seen[string(id)] {
			return no("duplicate-signer")
		}
		seen[string(id)] = true
		if !e.sigOK(ref.BlockHeight(), ref.Raw(), s) {
			return no("signature")
		}
		ids = append(ids, id)
	}
	w := Weight(ids, com)
	if soft {
		if w.Cmp(F(com)) <= 0 {
			return no("weight-not-above-f")
		}
	} else if w.Cmp(Q(com)) < 0 {
		return no("weight-below-quorum")
	}
	if len(p.RandomSeedSignature()) == 0 {
		return no("no-seed-signature")
	}
	prev := protocol.BlockProofReader(prevProofBytes)
	if !e.Reg.VerifyMasterSeedSig(ref.BlockHeight(), SeedBytes(SeedOf(prev.RandomSeedSignature())), p.RandomSeedSignature()) {
		return no("seed-signature")
	}
	return ok()
}

// BigWeight is exported for evidence classification.
func BigWeight(ids []primitives.MemberId, c []interfaces.CommitteeMember) *big.Int {
	return Weight(ids, c)
}

// SeedOf derives the random seed of a height from the previous proof's seed signature
// (sha256, bytes 0,3,7,...,27 little endian) - written independently of services/randomseed.
func SeedOf(prevSeedSignature []byte) uint64 {
	h := sha256.Sum256(prevSeedSignature)
	return binary.LittleEndian.Uint64([]byte{h[0], h[3], h[7], h[11], h[15], h[19], h[23], h[27]})
}

// SeedBytes is the content that is signed for a seed: its decimal representation.
func SeedBytes(seed uint64) []byte { return []byte(strconv.FormatUint(seed, 10)) }
