// Package rt: engine R - the real two-goroutine runtime (MainLoop.Run) with gated SPIs, scripted peers and quiescence detection.
package rt

import (
	"bufio"
	"context"
	"fmt"
	"os"
	"runtime"
	"strings"
	"sync"
	"time"

	leanhelix "github.com/orbs-network/lean-helix-go"
	Electiontrigger "github.com/orbs-network/lean-helix-go/services/electiontrigger"
	"github.com/orbs-network/lean-helix-go/services/interfaces"
	"github.com/orbs-network/lean-helix-go/spec/types/go/primitives"
	"github.com/orbs-network/lean-helix-go/spec/types/go/protocol"

	"verif/fakes"
	"verif/ref"
	"verif/sim"
)

const Instance = sim.Instance

// ---------------------------------------------------------------- gates

type GateEntry struct {
	Kind     string
	H        uint64
	V        uint64 // view the call's context belongs to: the node's view at entry; for validate the view of the proposal being validated
	PosExact bool   // false: the view could not be determined (a proposal the harness did not send); position-dependent rules skip the entry
	Policy   string // pass | hold | ctx
	CtxErrAt bool   // context already cancelled at entry
	Released string // "" (still blocked) | "pass" | "release" | "ctx"
	Entered  time.Time
	Left     time.Time
	ctx      context.Context
	ch       chan struct{}
}

type Gates struct {
	Slow    time.Duration // duration of a "slow" call
	mu      sync.Mutex
	policy  map[string][]string // per kind: queue of policies for the next occurrences (default pass)
	Entries []*GateEntry
}

func NewGates() *Gates { return &Gates{policy: map[string][]string{}, Slow: 40 * time.Millisecond} }

// Plan appends a policy for the next not yet planned occurrence of kind.
func (g *Gates) Plan(kind, policy string) {
	g.mu.Lock()
	g.policy[kind] = append(g.policy[kind], policy)
	g.mu.Unlock()
}

func (g *Gates) enter(kind string, ctx context.Context, h, v uint64, exact bool) {
	g.mu.Lock()
	pol := "pass"
	if q := g.policy[kind]; len(q) > 0 {
		pol = q[0]
		g.policy[kind] = q[1:]
	}
	e := &GateEntry{Kind: kind, H: h, V: v, PosExact: exact, Policy: pol, CtxErrAt: ctx.Err() != nil, Entered: time.Now(), ctx: ctx, ch: make(chan struct{})}
	g.Entries = append(g.Entries, e)
	g.mu.Unlock()
	switch pol {
	case "pass":
		g.leave(e, "pass")
	case "hold": // until released by the harness, or until its context is cancelled
		select {
		case <-e.ch:
			g.leave(e, "release")
		case <-ctx.Done():
			g.leave(e, "ctx")
		}
	case "ctx": // a consumer that only ever waits on its context
		<-ctx.Done()
		g.leave(e, "ctx")
	case "slow": // a consumer call that takes a while and does not look at its context at all
		time.Sleep(g.Slow)
		g.leave(e, "slow")
	}
}

func (g *Gates) leave(e *GateEntry, how string) {
	g.mu.Lock()
	e.Released = how
	e.Left = time.Now()
	g.mu.Unlock()
}

// Blocked returns the entries that are still inside their gate.
func (g *Gates) Blocked() []*GateEntry {
	g.mu.Lock()
	defer g.mu.Unlock()
	var out []*GateEntry
	for _, e := range g.Entries {
		if e.Released == "" && e.Policy != "slow" { // a slow call moves on by itself: it is busy, not blocked
			out = append(out, e)
		}
	}
	return out
}

// Release lets the oldest blocked "hold" entry go. Returns false if none is blocked.
func (g *Gates) Release() bool {
	g.mu.Lock()
	defer g.mu.Unlock()
	for _, e := range g.Entries {
		if e.Released == "" && e.Policy == "hold" {
			select {
			case <-e.ch:
			default:
				close(e.ch)
				return true
			}
		}
	}
	return false
}

func (g *Gates) ReleaseAll() {
	for g.Release() {
	}
}

func (g *Gates) Snapshot() []GateEntry {
	g.mu.Lock()
	defer g.mu.Unlock()
	out := make([]GateEntry, len(g.Entries))
	for i, e := range g.Entries {
		out[i] = *e
		out[i].ctx, out[i].ch = nil, nil
	}
	return out
}

// ---------------------------------------------------------------- harness

type Config struct {
	N                  int      `json:"n"`
	Me                 int      `json:"me"` // position in the committee order (= identity index; order is the identity order rotated by Rot per height)
	Rot                int      `json:"rot"`
	Weights            []uint64 `json:"weights,omitempty"` // default all 1
	RealTimer          bool     `json:"real_timer"`
	BaseMs             int      `json:"base_ms"`                  // election timeout on view 0 for the real timer
	FailCommitAt       []uint64 `json:"fail_commit_at,omitempty"` // heights whose commit callback returns an error
	CommitteeFailFirst int      `json:"committee_fail_first,omitempty"`
	AbsentAt           uint64   `json:"absent_at,omitempty"`           // the node is not in the committee of this height (it moves on by sync only)
	CommitteePlainErr  bool     `json:"committee_plain_err,omitempty"` // a failing committee lookup reports a plain error even when its context is cancelled
	SyncCtxPerCall     bool     `json:"sync_ctx_per_call,omitempty"`   // UpdateState gets a per-call context which the consumer cancels as soon as the call has returned
	CommitHonoursCtx   bool     `json:"commit_honours_ctx,omitempty"`  // the consumer's commit callback returns ctx.Err() when its context was cancelled while it ran
}

type Event struct {
	T    time.Time
	Kind string // commit | round | send | hv
	H, V uint64
	Info string
	B    bool
}

type H struct {
	Cfg    Config
	Reg    *fakes.Registry
	IDs    []primitives.MemberId
	ML     *leanhelix.MainLoop
	BU     *fakes.BlockUtils
	Mem    *fakes.Membership
	Sto    *fakes.RecStorage
	Sch    *fakes.Sched
	Real   *Electiontrigger.TimerBasedElectionTrigger
	KM     *fakes.KeyManager
	Gates  *Gates
	Ctx    context.Context
	Cancel context.CancelFunc
	Waiter interface{ WaitUntilShutdown(context.Context) }

	mu          sync.Mutex
	Events      []Event
	Sent        []*interfaces.ConsensusRawMessage
	SentTo      [][]primitives.MemberId
	Commits     []sim.Commit
	Rounds      []sim.Round
	Chain       map[uint64]*ChainEntry // blocks+proofs the harness can sync the node to
	LogBuf      *logScanner
	ProofOf     map[uint64][]byte // proof the node's term of height h started from
	stopPoll    chan struct{}
	ppView      map[string]uint64 // proposal hash -> view of the PREPREPARE / NEW_VIEW the harness sent it in
	HVSamples   []([2]uint64)
	HVTimes     []HVTime // one per HVSamples entry
	ElectionCBs int
}

// HVTime: when a (height, view) state was first seen by the poller and when the previous state was last seen; the state was
// entered somewhere in between, so (next.FirstSeen - this.PrevLastSeen) is an upper bound of how long it lasted.
type HVTime struct {
	FirstSeen    time.Time
	PrevLastSeen time.Time
}

type ChainEntry struct {
	Block *fakes.Block
	Proof []byte
}

type logScanner struct {
	mu     sync.Mutex
	panics []string
	lines  int
}

func (l *logScanner) Panics() []string {
	l.mu.Lock()
	defer l.mu.Unlock()
	return append([]string{}, l.panics...)
}

var stdoutMu sync.Mutex

func (h *H) committee(height primitives.BlockHeight) []interfaces.CommitteeMember {
	n := h.Cfg.N
	out := make([]interfaces.CommitteeMember, n)
	shift := 0
	if height > 0 {
		shift = int((uint64(height) - 1) * uint64(h.Cfg.Rot) % uint64(n))
	}
	out = out[:0]
	for i := 0; i < n; i++ {
		idx := (i + shift) % n
		if h.Cfg.AbsentAt != 0 && uint64(height) == h.Cfg.AbsentAt && idx == h.Cfg.Me {
			continue
		}
		w := uint64(1)
		if idx < len(h.Cfg.Weights) {
			w = h.Cfg.Weights[idx]
		}
		out = append(out, interfaces.CommitteeMember{Id: h.IDs[idx], Weight: primitives.MemberWeight(w)})
	}
	return out
}

func (h *H) LeaderIdx(height, view uint64) int {
	id := ref.Leader(primitives.View(view), h.committee(primitives.BlockHeight(height)))
	for i, x := range h.IDs {
		if x.Equal(id) {
			return i
		}
	}
	return -1
}

func (h *H) Others() []int {
	var out []int
	for i := 0; i < h.Cfg.N; i++ {
		if i != h.Cfg.Me {
			out = append(out, i)
		}
	}
	return out
}

func (h *H) ev(e Event) {
	e.T = time.Now()
	h.mu.Lock()
	h.Events = append(h.Events, e)
	h.mu.Unlock()
}

// New builds the node (NewLeanHelix) with fakes; Start runs it.
func New(cfg Config) *H {
	h := &H{Cfg: cfg, Reg: fakes.NewRegistry(), Gates: NewGates(), Chain: map[uint64]*ChainEntry{}, ProofOf: map[uint64][]byte{}, LogBuf: &logScanner{}}
	for i := 0; i < cfg.N; i++ {
		h.IDs = append(h.IDs, sim.MemberName(i))
		h.Reg.Add(h.IDs[i])
	}
	me := h.IDs[cfg.Me]
	h.BU = fakes.NewBlockUtils(string(me))
	h.Mem = &fakes.Membership{Me: me, Committee: h.committee, FailFirst: cfg.CommitteeFailFirst, PlainErr: cfg.CommitteePlainErr}
	h.Sto = fakes.NewRecStorage()
	h.KM = &fakes.KeyManager{Reg: h.Reg, Me: me}
	gate := func(kind string, ctx context.Context, height primitives.BlockHeight) {
		v := uint64(0)
		if h.ML != nil {
			v = uint64(h.ML.State().View())
		}
		exact := true
		if kind == "validate" {
			// the library validates a proposal under the context of the PROPOSAL's view, which need not be the node's view
			// (a PREPREPARE of view 0 is still validated after the node was elected into a later view): take it from the proposal
			h.mu.Lock()
			pv, ok := h.ppView[h.BU.GateHash()]
			h.mu.Unlock()
			if ok {
				v = pv
			} else {
				exact = false
			}
		}
		h.Gates.enter(kind, ctx, uint64(height), v, exact)
	}
	h.BU.Gate = gate
	h.Mem.Gate = gate
	c := &interfaces.Config{
		InstanceId: Instance,
		Communication: &fakes.Communication{Send: func(rec []primitives.MemberId, raw *interfaces.ConsensusRawMessage) {
			m := sim.MetaOf(raw)
			h.mu.Lock()
			h.Sent = append(h.Sent, raw)
			h.SentTo = append(h.SentTo, rec)
			h.mu.Unlock()
			h.ev(Event{Kind: "send", H: m.H, V: m.V, Info: kind(m.Union)})
		}},
		Membership: h.Mem,
		BlockUtils: h.BU,
		KeyManager: h.KM,
		Storage:    h.Sto,
	}
	if cfg.RealTimer {
		base := time.Duration(cfg.BaseMs) * time.Millisecond
		if base <= 0 {
			base = 5 * time.Millisecond
		}
		c.ElectionTimeoutOnV0 = base
		c.OnElectionCB = nil
	} else {
		h.Sch = fakes.NewSched()
		c.OverrideElectionTrigger = h.Sch
	}
	fail := map[uint64]bool{}
	for _, x := range cfg.FailCommitAt {
		fail[x] = true
	}
	onCommit := func(ctx context.Context, block interfaces.Block, proof []byte) error {
		b := fakes.AsBlock(block)
		hh := uint64(block.Height())
		h.Gates.enter("commit", ctx, hh, 0, true)
		failed := fail[hh]
		var cerr error
		if cfg.CommitHonoursCtx && ctx.Err() != nil { // a consumer that honours its context gives up and says so
			failed, cerr = true, ctx.Err()
		}
		h.mu.Lock()
		h.Commits = append(h.Commits, sim.Commit{H: hh, Block: b, Proof: append([]byte{}, proof...)})
		if !failed {
			h.ProofOf[hh+1] = append([]byte{}, proof...)
		}
		h.mu.Unlock()
		h.ev(Event{Kind: "commit", H: hh, Info: b.ID, B: failed})
		if cerr != nil {
			return cerr
		}
		if failed {
			return fmt.Errorf("consumer failed to persist block %d", hh)
		}
		return nil
	}
	onRound := func(ctx context.Context, newHeight primitives.BlockHeight, prev interfaces.Block, canBeFirst bool) {
		h.mu.Lock()
		h.Rounds = append(h.Rounds, sim.Round{H: uint64(newHeight), PrevID: fakes.BlockID(prev), CanBeFirst: canBeFirst})
		h.mu.Unlock()
		h.ev(Event{Kind: "round", H: uint64(newHeight), Info: fakes.BlockID(prev), B: canBeFirst})
	}
	h.ML = leanhelix.NewLeanHelix(c, onCommit, onRound)
	return h
}

func kind(u int) string {
	switch u {
	case sim.UPP:
		return "PP"
	case sim.UP:
		return "P"
	case sim.UC:
		return "C"
	case sim.UVC:
		return "VC"
	case sim.UNV:
		return "NV"
	}
	return "?"
}

// Start runs the node. The scribe logger created inside Run captures os.Stdout at that moment, so stdout is swapped for a
// pipe just for the duration of the call; the pipe is scanned for recovered panics.
func (h *H) Start() {
	h.Ctx, h.Cancel = context.WithCancel(context.Background())
	stdoutMu.Lock()
	old := os.Stdout
	pr, pw, err := os.Pipe()
	if err == nil {
		os.Stdout = pw
	}
	h.Waiter = h.ML.Run(h.Ctx)
	os.Stdout = old
	stdoutMu.Unlock()
	if err == nil {
		go func() {
			sc := bufio.NewScanner(pr)
			sc.Buffer(make([]byte, 1<<20), 1<<24)
			for sc.Scan() {
				line := sc.Text()
				h.LogBuf.mu.Lock()
				h.LogBuf.lines++
				if strings.Contains(line, "recovered panic") {
					if len(line) > 600 {
						line = line[:600]
					}
					h.LogBuf.panics = append(h.LogBuf.panics, line)
				}
				h.LogBuf.mu.Unlock()
			}
		}()
	}
	// (height, view) poller
	h.stopPoll = make(chan struct{})
	go func() {
		lastSeen := time.Now()
		for {
			select {
			case <-h.stopPoll:
				return
			default:
			}
			hv := h.ML.State().HeightView()
			now := time.Now()
			s := [2]uint64{uint64(hv.Height()), uint64(hv.View())}
			h.mu.Lock()
			if n := len(h.HVSamples); n == 0 || h.HVSamples[n-1] != s {
				h.HVSamples = append(h.HVSamples, s)
				h.HVTimes = append(h.HVTimes, HVTime{FirstSeen: now, PrevLastSeen: lastSeen})
			}
			h.mu.Unlock()
			lastSeen = now
			time.Sleep(50 * time.Microsecond)
		}
	}()
}

func (h *H) StopPoller() {
	if h.stopPoll != nil {
		close(h.stopPoll)
		h.stopPoll = nil
	}
}

// Height / View of the node.
func (h *H) HV() (uint64, uint64) {
	hv := h.ML.State().HeightView()
	return uint64(hv.Height()), uint64(hv.View())
}

func (h *H) NCommits() int {
	h.mu.Lock()
	defer h.mu.Unlock()
	return len(h.Commits)
}

func (h *H) NRounds() int {
	h.mu.Lock()
	defer h.mu.Unlock()
	return len(h.Rounds)
}

func (h *H) NSent() int {
	h.mu.Lock()
	defer h.mu.Unlock()
	return len(h.Sent)
}

// ---------------------------------------------------------------- quiescence

type stackInfo struct {
	mainIdle, workerIdle bool
	mainSeen, workerSeen bool
	other                []string // library goroutines that are neither of the two loops
	raw                  string
}

func snapshot() stackInfo {
	buf := make([]byte, 1<<20)
	n := runtime.Stack(buf, true)
	var si stackInfo
	si.raw = string(buf[:n])
	for _, g := range strings.Split(si.raw, "\n\n") {
		if !strings.Contains(g, "lean-helix-go") {
			continue
		}
		lines := strings.Split(g, "\n")
		header := lines[0]
		// innermost frame that belongs to the library
		inner := ""
		for _, l := range lines[1:] {
			if strings.HasPrefix(l, "github.com/orbs-network/lean-helix-go") {
				inner = l
				break
			}
		}
		parked := strings.Contains(header, "[select") || strings.Contains(header, "[chan receive") || strings.Contains(header, "[chan send")
		switch {
		case strings.Contains(g, "(*MainLoop).run("):
			si.mainSeen = true
			si.mainIdle = parked && strings.Contains(inner, "(*MainLoop).run(") && topIsRuntime(lines)
		case strings.Contains(g, "(*WorkerLoop).Run("):
			si.workerSeen = true
			si.workerIdle = parked && strings.Contains(inner, "(*WorkerLoop).Run(") && topIsRuntime(lines)
		case strings.Contains(g, "verif/rt.") && !strings.Contains(g, "lean-helix-go."):
			// harness goroutine
		default:
			if inner != "" {
				si.other = append(si.other, header+" "+inner)
			}
		}
	}
	return si
}

// topIsRuntime: the goroutine is parked directly inside the loop's own select (no frames between the runtime and the loop function
// other than runtime ones).
func topIsRuntime(lines []string) bool {
	for _, l := range lines[1:] {
		if strings.HasPrefix(l, "\t") {
			continue
		}
		if strings.HasPrefix(l, "runtime.") {
			continue
		}
		return strings.HasPrefix(l, "github.com/orbs-network/lean-helix-go.(*MainLoop).run(") || strings.HasPrefix(l, "github.com/orbs-network/lean-helix-go.(*WorkerLoop).Run(")
	}
	return false
}

// Quiescent: both loops are parked in their own select in two snapshots a few milliseconds apart, and no other library
// goroutine is active (a select cannot stay parked with a ready channel, so the hand-off channels are empty too).
// Gate-blocked workers are reported separately by WorkerInGate.
func Quiescent() (bool, string) {
	a := snapshot()
	if !(a.mainIdle && a.workerIdle) {
		return false, ""
	}
	time.Sleep(1 * time.Millisecond)
	b := snapshot()
	if b.mainIdle && b.workerIdle {
		return true, b.raw
	}
	return false, ""
}

// MainIdleWorkerBlocked: the main loop is parked in its select and the worker is not in its own select (e.g. inside an SPI call).
func MainIdleWorkerBlocked() bool {
	a := snapshot()
	if !a.mainIdle || a.workerIdle {
		return false
	}
	time.Sleep(1 * time.Millisecond)
	b := snapshot()
	return b.mainIdle && !b.workerIdle
}

type WaitResult int

const (
	Happened WaitResult = iota
	QuiescentWithout
	Inconclusive
)

// WaitFor polls cond; if the node becomes quiescent while cond is still false, nothing will ever change: QuiescentWithout.
// gatesOK tells whether a worker blocked inside a gate counts as "settled" (the caller knows the gate stays closed).
func (h *H) WaitFor(cond func() bool, deadline time.Duration, gateSettles bool) (WaitResult, string) {
	start := time.Now()
	lastQ := time.Now()
	for {
		if cond() {
			return Happened, ""
		}
		if time.Since(lastQ) > 2*time.Millisecond {
			lastQ = time.Now()
			if q, raw := Quiescent(); q {
				if cond() {
					return Happened, ""
				}
				return QuiescentWithout, raw
			}
			if gateSettles && len(h.Gates.Blocked()) > 0 && MainIdleWorkerBlocked() {
				if cond() {
					return Happened, ""
				}
				return QuiescentWithout, "worker blocked in a closed gate, main loop idle"
			}
		}
		if time.Since(start) > deadline {
			return Inconclusive, ""
		}
		time.Sleep(100 * time.Microsecond)
	}
}

// Settle waits until the node is quiescent (or blocked in a gate). Returns false if that does not happen within the deadline.
func (h *H) Settle(deadline time.Duration) bool {
	r, _ := h.WaitFor(func() bool { return false }, deadline, true)
	return r == QuiescentWithout
}

// ---------------------------------------------------------------- playing the other members

func (h *H) sign(i int, height uint64, content []byte) []byte {
	if i == h.Cfg.Me {
		panic("harness signing as the node under test")
	}
	return h.Reg.SignAs(h.IDs[i], primitives.BlockHeight(height), content)
}

func (h *H) refSpec(t uint16, height, view uint64, hash []byte) sim.RefSpec {
	return sim.RefSpec{Type: t, Inst: uint64(Instance), H: height, V: view, Hash: hash}
}

func (h *H) signedRef(i int, r sim.RefSpec) sim.SigSpec {
	return sim.SigSpec{ID: h.IDs[i], Sig: h.sign(i, r.H, r.Raw())}
}

// SeedAt: seed of a height given the proof its term started from.
func (h *H) SeedAt(height uint64) uint64 {
	h.mu.Lock()
	p := h.ProofOf[height]
	h.mu.Unlock()
	return ref.SeedOf(protocol.BlockProofReader(p).RandomSeedSignature())
}

func (h *H) Send(sp *sim.MsgSpec) bool {
	h.mu.Lock()
	if h.ppView == nil {
		h.ppView = map[string]uint64{}
	}
	if sp.Union == sim.UPP {
		h.ppView[string(sp.Ref.Hash)] = sp.Ref.V
	} else if sp.Union == sim.UNV && sp.PPRef != nil {
		h.ppView[string(sp.PPRef.Hash)] = sp.NVV // a NEW_VIEW's proposal is validated under the NEW_VIEW's view
	}
	h.mu.Unlock()
	return h.SendRaw(sp.Build())
}

// SendRaw hands a message to HandleConsensusMessage with a deadline (the call blocks until the main loop takes it).
func (h *H) SendRaw(raw *interfaces.ConsensusRawMessage) bool {
	ctx, cancel := context.WithTimeout(context.Background(), 5*time.Second)
	defer cancel()
	done := make(chan struct{})
	go func() {
		h.ML.HandleConsensusMessage(ctx, raw)
		close(done)
	}()
	select {
	case <-done:
		return ctx.Err() == nil
	case <-time.After(6 * time.Second):
		return false
	}
}

// NewBlock makes a consumer-valid block for height on top of prev.
func NewBlock(height uint64, prevID, tag string) *fakes.Block {
	return &fakes.Block{H: primitives.BlockHeight(height), Ref: primitives.TimestampSeconds(1000 + uint32(height)), ID: fmt.Sprintf("blk/%d/%s", height, tag), Prev: prevID, Valid: true}
}

// MakeProof builds a genuine block proof for block b (signed by all other members) on top of prevProof.
func (h *H) MakeProof(b *fakes.Block, view uint64, prevProof []byte) []byte {
	height := uint64(b.H)
	r := h.refSpec(sim.TC, height, view, b.Hash())
	var nodes []*protocol.SenderSignatureBuilder
	for _, o := range h.Others() {
		nodes = append(nodes, &protocol.SenderSignatureBuilder{MemberId: h.IDs[o], Signature: h.sign(o, height, r.Raw())})
	}
	seed := ref.SeedOf(protocol.BlockProofReader(prevProof).RandomSeedSignature())
	return (&protocol.BlockProofBuilder{
		BlockRef:            &protocol.BlockRefBuilder{MessageType: protocol.LEAN_HELIX_COMMIT, InstanceId: Instance, BlockHeight: b.H, View: primitives.View(view), BlockHash: b.Hash()},
		Nodes:               nodes,
		RandomSeedSignature: h.Reg.MasterSeedSig(b.H, ref.SeedBytes(seed)),
	}).Build().Raw()
}

// BuildChain prepares blocks+proofs for heights 1..k that the harness can UpdateState the node to.
func (h *H) BuildChain(k uint64) {
	prevID := ""
	var prevProof []byte
	for x := uint64(1); x <= k; x++ {
		b := NewBlock(x, prevID, "sync")
		p := h.MakeProof(b, 0, prevProof)
		h.Chain[x] = &ChainEntry{Block: b, Proof: p}
		prevID, prevProof = b.ID, p
	}
}

// UpdateState calls the node's UpdateState with a deadline; ok=false means it did not return in time.
func (h *H) UpdateState(block *fakes.Block, proof []byte, callCtx context.Context) (err error, ok bool) {
	if callCtx == nil {
		callCtx = context.Background()
		if h.Cfg.SyncCtxPerCall { // the usual "ctx, cancel := context.WithTimeout(...); defer cancel()" of a request handler
			var cancel context.CancelFunc
			callCtx, cancel = context.WithCancel(callCtx)
			defer cancel()
		}
	}
	done := make(chan error, 1)
	go func() {
		var b interfaces.Block
		if block != nil {
			b = block
		}
		done <- h.ML.UpdateState(callCtx, b, proof)
	}()
	select {
	case e := <-done:
		if e == nil && block != nil {
			h.mu.Lock()
			h.ProofOf[uint64(block.H)+1] = proof
			h.mu.Unlock()
		}
		return e, true
	case <-time.After(8 * time.Second):
		return nil, false
	}
}

// Trigger pushes an election trigger for (height, view) into the fake scheduler's channel (what the timer goroutine does).
func (h *H) Trigger(height, view uint64) bool {
	if h.Sch == nil {
		return false
	}
	t := h.Sch.TriggerFor(primitives.BlockHeight(height), primitives.View(view))
	if t == nil {
		return false
	}
	select {
	case h.Sch.ElectionChannel() <- t:
		return true
	case <-time.After(5 * time.Second):
		return false
	}
}

// PlayRound sends the traffic of the other members that lets the node commit its current height in its current view
// (view 0: PREPREPARE from the leader unless the node leads; then PREPAREs and COMMITs). Returns the block used.
func (h *H) PlayRound() *fakes.Block { return h.PlayRoundOrder("ppc") }

// PlayRoundOrder: order is a permutation of p (PREPREPARE), r (PREPAREs), c (COMMITs), e.g. "pcr" delivers the COMMITs before
// the PREPAREs; a trailing 'd' re-sends everything once more (duplicates).
func (h *H) PlayRoundOrder(order string) *fakes.Block {
	height, view := h.HV()
	if height == 0 {
		return nil
	}
	leader := h.LeaderIdx(height, view)
	var hash []byte
	var blk *fakes.Block
	prevID := ""
	h.mu.Lock()
	for _, c := range h.Commits {
		if c.H == height-1 && c.Block != nil {
			prevID = c.Block.ID
		}
	}
	if ce, ok := h.Chain[height-1]; ok && prevID == "" {
		prevID = ce.Block.ID
	}
	h.mu.Unlock()
	var ppSpec *sim.MsgSpec
	if pp, ok := h.Sto.GetPreprepareMessage(primitives.BlockHeight(height), primitives.View(view)); ok {
		hash = pp.Content().SignedHeader().BlockHash()
		blk = fakes.AsBlock(pp.Block())
	} else if leader == h.Cfg.Me {
		return nil // the node has to propose first (maybe it is blocked in a gate)
	} else if view == 0 {
		blk = NewBlock(height, prevID, fmt.Sprintf("r%d", time.Now().UnixNano()%100000))
		hash = blk.Hash()
		r := h.refSpec(sim.TPP, height, 0, hash)
		ppSpec = &sim.MsgSpec{Union: sim.UPP, Ref: r, Sender: h.signedRef(leader, r), Block: blk}
	} else {
		return nil
	}
	seed := ref.SeedBytes(h.SeedAt(height))
	send := func(what byte) {
		switch what {
		case 'p':
			if ppSpec != nil {
				h.Send(ppSpec)
			}
		case 'r':
			for _, o := range h.Others() {
				if o == leader {
					continue
				}
				r := h.refSpec(sim.TP, height, view, hash)
				h.Send(&sim.MsgSpec{Union: sim.UP, Ref: r, Sender: h.signedRef(o, r)})
			}
		case 'c':
			for _, o := range h.Others() {
				r := h.refSpec(sim.TC, height, view, hash)
				h.Send(&sim.MsgSpec{Union: sim.UC, Ref: r, Sender: h.signedRef(o, r), Share: h.Reg.ShareAs(h.IDs[o], primitives.BlockHeight(height), seed)})
			}
		}
	}
	if order == "" {
		order = "prc"
	}
	for i := 0; i < len(order); i++ {
		if order[i] == 'd' {
			for j := 0; j < i; j++ {
				send(order[j])
			}
			continue
		}
		send(order[i])
	}
	return blk
}

// SendVotes makes the other members vote for the smallest view >= max(current view, 1) that the node leads (valid VIEW_CHANGEs
// without proofs). With quorum weight among the others the node gets elected, requests a fresh proposal and sends a NEW_VIEW.
func (h *H) SendVotes() (uint64, bool) {
	height, view := h.HV()
	if height == 0 {
		return 0, false
	}
	v := view
	if v == 0 {
		v = 1
	}
	for k := 0; k < h.Cfg.N && h.LeaderIdx(height, v) != h.Cfg.Me; k++ {
		v++
	}
	if h.LeaderIdx(height, v) != h.Cfg.Me {
		return 0, false
	}
	for _, o := range h.Others() {
		vs := sim.VoteSpec{Type: sim.TVC, Inst: uint64(Instance), H: height, V: v}
		vs.Sender = sim.SigSpec{ID: h.IDs[o], Sig: h.sign(o, height, vs.HeaderRaw())}
		h.Send(&sim.MsgSpec{Union: sim.UVC, Vote: &vs})
	}
	return v, true
}

// Flood hands n cheap, valid-looking but irrelevant messages (PREPAREs of a past view from another member) to the node.
func (h *H) Flood(n int) bool {
	height, _ := h.HV()
	o := h.Others()[0]
	r := h.refSpec(sim.TP, height, 0, []byte("flood"))
	raw := (&sim.MsgSpec{Union: sim.UP, Ref: r, Sender: h.signedRef(o, r)}).Build()
	for i := 0; i < n; i++ {
		if !h.SendRaw(raw) {
			return false
		}
	}
	return true
}

// Shutdown cancels the run context and waits (bounded) for WaitUntilShutdown. ok=false: it did not return.
func (h *H) Shutdown(wait time.Duration) (ok bool, took time.Duration) {
	start := time.Now()
	h.Cancel()
	done := make(chan struct{})
	go func() {
		h.Waiter.WaitUntilShutdown(context.Background())
		close(done)
	}()
	select {
	case <-done:
		h.StopPoller()
		return true, time.Since(start)
	case <-time.After(wait):
		h.StopPoller()
		return false, time.Since(start)
	}
}

// LibraryGoroutines lists goroutines that have a lean-helix-go or govnr frame (used for the leak diff).
func LibraryGoroutines() []string {
	buf := make([]byte, 1<<20)
	n := runtime.Stack(buf, true)
	var out []string
	for _, g := range strings.Split(string(buf[:n]), "\n\n") {
		if strings.Contains(g, "verif/rt.") && !strings.Contains(g, "github.com/orbs-network/lean-helix-go.") && !strings.Contains(g, "lean-helix-go/services") {
			continue
		}
		if strings.Contains(g, "github.com/orbs-network/lean-helix-go") || strings.Contains(g, "orbs-network/govnr") {
			lines := strings.Split(g, "\n")
			s := lines[0]
			for _, l := range lines[1:] {
				if strings.HasPrefix(l, "github.com/orbs-network") || strings.HasPrefix(l, "created by") {
					s += " | " + l
				}
			}
			out = append(out, s)
		}
	}
	return out
}
