package rt

import (
	"context"
	"fmt"
	"github.com/orbs-network/lean-helix-go/spec/types/go/primitives"
	"time"

	"verif/fakes"
)

// Op is one step of a generated run against the real runtime.
type Op struct {
	K      string `json:"k"`                // round | plan | trigger | sync | burst | release | settle | sleep | cancel | raw | callcancelled
	Kind   string `json:"kind,omitempty"`   // plan: SPI kind (propose|validate|committee|commit)
	Policy string `json:"policy,omitempty"` // plan: hold | ctx
	DH     int    `json:"dh,omitempty"`     // trigger/sync: height relative to the node's current height
	DV     int    `json:"dv,omitempty"`     // trigger: view relative to the node's current view
	N      int    `json:"n,omitempty"`      // burst: how many; sleep: microseconds
	Raw    []byte `json:"raw,omitempty"`    // raw: content bytes for HandleConsensusMessage
	Order  string `json:"order,omitempty"`  // round: delivery order of PREPREPARE (p), PREPAREs (r), COMMITs (c); 'd' = duplicates
}

type Case struct {
	Cfg Config `json:"cfg"`
	Ops []Op   `json:"ops"`
}

// OpRecord is what an op observed (the history the oracles work on).
type OpRecord struct {
	Op                                      Op
	At                                      time.Time
	H0, V0                                  uint64 // node's (height, view) when the op started
	AbsH                                    uint64 // resolved absolute height (trigger/sync)
	AbsV                                    uint64
	Err                                     string
	Returned                                bool // API call returned within its deadline
	Forwarded                               bool
	BlockedAtStart                          []GateEntry // gates blocked when the op started
	SentBefore, CommitsBefore, RoundsBefore int
	Settled                                 bool
	Inconclusive                            bool
	// what the node holds at its SPI boundary when the op starts (fake scheduler only): election registration, storage calls
	SchedActive                     bool
	SchedCur                        fakes.Registration
	Stops, Regs, Clears, StoreCalls int
}

type Run struct {
	H               *H
	Case            Case
	Records         []OpRecord
	Cancelled       bool
	FinalSettled    bool
	FinalH, FinalV  uint64
	FinalBlocked    int // SPI calls still inside their gate at final quiescence (consumer calls that wait on their context only)
	ShutdownOK      bool
	ShutdownTook    time.Duration
	Inconclusive    int
	StartGoroutines []string
	EndGoroutines   []string
	AfterCancel     struct {
		Sent, Commits, Rounds int
	}
	Final struct {
		Sent, Commits, Rounds int
	}
	TimerArmedAtEnd string // fake election scheduler: the registration still armed after WaitUntilShutdown returned ("" = stopped)
}

const opDeadline = 6 * time.Second

// Execute runs the case: start the node, UpdateState(genesis), the ops, then shutdown (if not cancelled by an op) and the
// post-shutdown grace observation.
func Execute(c Case) *Run {
	r := &Run{Case: c}
	r.StartGoroutines = LibraryGoroutines()
	h := New(c.Cfg)
	r.H = h
	h.BuildChain(40)
	h.Start()
	if _, ok := h.UpdateState(nil, nil, nil); !ok {
		r.Inconclusive++
	}
	unavailable := c.Cfg.CommitteeFailFirst > 1000 // the committee source never answers: the worker keeps polling and never settles
	if unavailable {
		time.Sleep(2 * time.Millisecond)
	} else {
		h.Settle(opDeadline)
	}
	for _, op := range c.Ops {
		if r.Cancelled && op.K != "callcancelled" && op.K != "sleep" {
			continue
		}
		if unavailable && (op.K == "round" || op.K == "settle") {
			continue
		}
		r.do(op)
	}
	if !r.Cancelled {
		h.Gates.ReleaseAll()
		if !unavailable {
			r.FinalSettled = h.Settle(opDeadline)
		}
		r.FinalH, r.FinalV = h.HV()
		r.FinalBlocked = len(h.Gates.Blocked())
		r.cancel()
	}
	return r
}

func (r *Run) cancel() {
	h := r.H
	r.Cancelled = true
	r.ShutdownOK, r.ShutdownTook = h.Shutdown(10 * time.Second)
	if r.ShutdownOK && r.ShutdownTook > 10*time.Second {
		r.Inconclusive++ // returned, but only after the 10 s bound: starved, not hung
	}
	r.AfterCancel.Sent, r.AfterCancel.Commits, r.AfterCancel.Rounds = h.NSent(), h.NCommits(), h.NRounds()
	if h.Sch != nil && r.ShutdownOK {
		if active, cur, stops, regs := h.Sch.Snap(); active {
			r.TimerArmedAtEnd = fmt.Sprintf("(h=%d,v=%d) after %d RegisterOnElection and %d Stop calls", cur.H, cur.V, regs, stops)
		}
	}
	// grace period: nothing may happen any more (longer than twice the largest armed real timeout)
	grace := 20 * time.Millisecond
	if h.Cfg.RealTimer {
		_, v := h.HV()
		if v > 6 {
			v = 6
		}
		grace = time.Duration(h.Cfg.BaseMs) * time.Millisecond * time.Duration(uint64(2)<<v)
		if grace < 20*time.Millisecond {
			grace = 20 * time.Millisecond
		}
		if grace > 1500*time.Millisecond {
			grace = 1500 * time.Millisecond
		}
	}
	time.Sleep(grace)
	h.Gates.ReleaseAll()
	time.Sleep(2 * time.Millisecond)
	r.Final.Sent, r.Final.Commits, r.Final.Rounds = h.NSent(), h.NCommits(), h.NRounds()
	for i := 0; i < 300; i++ { // settle retries (up to ~1.5 s): a goroutine that is on its way out is not a leak
		r.EndGoroutines = LibraryGoroutines()
		if len(r.EndGoroutines) <= len(r.StartGoroutines) {
			break
		}
		time.Sleep(5 * time.Millisecond)
	}
}

func (r *Run) do(op Op) {
	h := r.H
	h0, v0 := h.HV()
	rec := OpRecord{Op: op, At: time.Now(), H0: h0, V0: v0, SentBefore: h.NSent(), CommitsBefore: h.NCommits(), RoundsBefore: h.NRounds()}
	for _, e := range h.Gates.Blocked() {
		rec.BlockedAtStart = append(rec.BlockedAtStart, GateEntry{Kind: e.Kind, H: e.H, V: e.V, PosExact: e.PosExact, Policy: e.Policy})
	}
	if h.Sch != nil {
		rec.SchedActive, rec.SchedCur, rec.Stops, rec.Regs = h.Sch.Snap()
	}
	rec.Clears, rec.StoreCalls = h.Sto.NClears(), h.Sto.NLog()
	switch op.K {
	case "round":
		before := h.NCommits()
		// a node that leads view 0 proposes by itself first
		if h.LeaderIdx(h0, v0) == h.Cfg.Me {
			h.WaitFor(func() bool {
				_, ok := h.Sto.GetPreprepareMessage(blockHeight(h0), view(v0))
				return ok
			}, opDeadline, true)
		}
		if h.PlayRoundOrder(op.Order) != nil {
			res, _ := h.WaitFor(func() bool { return h.NCommits() > before }, opDeadline, true)
			rec.Settled = res != Inconclusive
			rec.Inconclusive = res == Inconclusive
		}
	case "plan":
		h.Gates.Plan(op.Kind, op.Policy)
	case "trigger":
		rec.AbsH = uint64(int(h0) + op.DH)
		if int(h0)+op.DH < 0 {
			rec.AbsH = 0
		}
		rec.AbsV = uint64(int(v0) + op.DV)
		if int(v0)+op.DV < 0 {
			rec.AbsV = 0
		}
		if op.DV == -99 && h.Sch != nil { // the stale trigger a real timer can still hold: the latest pair it was armed for before the current position
			if hh, vv, ok := h.Sch.LastArmedBefore(primitives.BlockHeight(h0), primitives.View(v0)); ok {
				rec.AbsH, rec.AbsV = uint64(hh), uint64(vv)
			}
		}
		rec.Forwarded = h.Trigger(rec.AbsH, rec.AbsV)
		rec.Returned = rec.Forwarded
	case "sync":
		rec.AbsH = uint64(int(h0) - 1 + op.DH) // DH=0: the block just below the current height (equal sync), 1: current height's block (newer) ...
		if int(h0)-1+op.DH < 1 {
			rec.AbsH = 1
		}
		if ce, ok := h.Chain[rec.AbsH]; ok {
			err, ret := h.UpdateState(ce.Block, ce.Proof, nil)
			rec.Returned = ret
			if err != nil {
				rec.Err = err.Error()
			}
		} else {
			rec.Returned, rec.Err = true, "skipped: no such block in the harness chain"
		}
	case "syncbig": // a sync over a huge gap: the tip the node is told about is 2^31 .. 2^63+ heights ahead
		gaps := []uint64{1 << 31, 1 << 32, 1<<63 - 1, 1 << 63, 1<<63 + 1<<62}
		rec.AbsH = h0 + gaps[op.N%len(gaps)]
		if rec.AbsH < h0 || rec.AbsH > 1<<63+1<<62+100 {
			rec.AbsH = 1<<63 + 5
		}
		b := NewBlock(rec.AbsH, "far-away", "tip")
		proof := h.MakeProof(b, 0, nil)
		h.Chain[rec.AbsH] = &ChainEntry{Block: b, Proof: proof}
		err, ret := h.UpdateState(b, proof, nil)
		rec.Returned = ret
		if err != nil {
			rec.Err = err.Error()
		}
	case "burst": // several syncs back to back, without yielding in between
		rec.AbsH = uint64(int(h0) - 1 + op.DH)
		if int(h0)-1+op.DH < 1 {
			rec.AbsH = 1
		}
		rec.Returned = true
		issued := 0
		for k := 0; k < op.N; k++ {
			x := rec.AbsH + uint64(k%3)
			if ce, ok := h.Chain[x]; ok {
				issued++
				_, ret := h.UpdateState(ce.Block, ce.Proof, nil)
				rec.Returned = rec.Returned && ret
				if x > rec.AbsV {
					rec.AbsV = x // highest height synced in this burst
				}
			}
		}
		if issued == 0 {
			rec.Err = "skipped: no such blocks in the harness chain"
		}
	case "elect": // the others vote the node into the next view it leads
		rec.AbsV, rec.Forwarded = h.SendVotes()
		rec.AbsH = h0
	case "flood":
		rec.Returned = h.Flood(op.N)
		if !rec.Returned {
			// one message was not taken within 5 s. A main loop that is BLOCKED stays blocked; one that is merely starved (busy
			// machine, race detector) takes messages again: probe for up to 40 s before calling it blocked
			for until := time.Now().Add(40 * time.Second); time.Now().Before(until); {
				if h.Flood(1) {
					rec.Returned, rec.Inconclusive = true, true
					break
				}
			}
		}
	case "release":
		rec.Forwarded = h.Gates.Release()
	case "settle":
		rec.Settled = h.Settle(opDeadline)
		rec.Inconclusive = !rec.Settled
	case "sleep":
		time.Sleep(time.Duration(op.N) * time.Microsecond)
	case "raw":
		rec.Returned = h.SendRaw(rawMsg(op.Raw))
	case "cancel":
		r.cancel()
	case "callcancelled": // API calls made with an already cancelled context must return promptly
		ctx, cancel := context.WithCancel(context.Background())
		cancel()
		done := make(chan struct{})
		go func() {
			h.ML.HandleConsensusMessage(ctx, rawMsg([]byte{1, 2, 3}))
			_ = h.ML.UpdateState(ctx, h.Chain[1].Block, h.Chain[1].Proof)
			_ = h.ML.ValidateBlockConsensus(ctx, h.Chain[1].Block, h.Chain[1].Proof, nil, nil, false)
			close(done)
		}()
		select {
		case <-done:
			rec.Returned = true
		case <-time.After(5 * time.Second):
			// blocked or merely starved? a call that blocks stays blocked: give it 40 s more before saying so
			select {
			case <-done:
				rec.Returned, rec.Inconclusive = true, true
			case <-time.After(40 * time.Second):
				rec.Returned = false
			}
		}
	}
	if rec.Inconclusive {
		r.Inconclusive++
	}
	r.Records = append(r.Records, rec)
}

func (r *Run) String() string {
	s := fmt.Sprintf("cfg=%+v\n", r.Case.Cfg)
	for _, rec := range r.Records {
		s += fmt.Sprintf("  %+v at (h=%d,v=%d) abs=(%d,%d) returned=%v fwd=%v err=%q blocked=%v\n", rec.Op, rec.H0, rec.V0, rec.AbsH, rec.AbsV, rec.Returned, rec.Forwarded, rec.Err, rec.BlockedAtStart)
	}
	return s
}

var _ = fakes.AsBlock
