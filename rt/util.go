package rt

import (
	"github.com/orbs-network/lean-helix-go/services/interfaces"
	"github.com/orbs-network/lean-helix-go/spec/types/go/primitives"
)

func blockHeight(h uint64) primitives.BlockHeight { return primitives.BlockHeight(h) }
func view(v uint64) primitives.View               { return primitives.View(v) }

func rawMsg(content []byte) *interfaces.ConsensusRawMessage {
	return &interfaces.ConsensusRawMessage{Content: content}
}
