package fakes

import (
	"bytes"
	"testing"

	"github.com/orbs-network/lean-helix-go/spec/types/go/primitives"
	"github.com/orbs-network/lean-helix-go/spec/types/go/protocol"
	"pgregory.net/rapid"
)

// The key registry is part of the trusted base of every check: these are its own laws.

func ids(n int) []primitives.MemberId {
	var out []primitives.MemberId
	for i := 0; i < n; i++ {
		out = append(out, primitives.MemberId([]byte{'m', byte('0' + i)}))
	}
	return out
}

func TestSignatureVerifiesOnlyForSignerHeightAndContent(t *testing.T) {
	rapid.Check(t, func(t *rapid.T) {
		r := NewRegistry()
		all := ids(4)
		for _, id := range all[:3] {
			r.Add(id)
		}
		who := rapid.IntRange(0, 2).Draw(t, "who")
		h := primitives.BlockHeight(rapid.Uint64().Draw(t, "h"))
		content := rapid.SliceOfN(rapid.Byte(), 0, 64).Draw(t, "content")
		sig := r.SignAs(all[who], h, content)
		if !r.VerifyMsg(h, content, all[who], sig) {
			t.Fatal("a genuine signature does not verify")
		}
		// any change of signer, height, content or signature bytes makes it fail
		other := (who + 1 + rapid.IntRange(0, 1).Draw(t, "other")) % 3
		if r.VerifyMsg(h, content, all[other], sig) {
			t.Fatal("signature verifies under another member's key")
		}
		if r.VerifyMsg(h, content, all[3], sig) || r.VerifyMsg(h, content, nil, sig) {
			t.Fatal("signature verifies for an unknown / empty identity")
		}
		if r.VerifyMsg(h+1, content, all[who], sig) {
			t.Fatal("signature verifies for another height")
		}
		if r.VerifyMsg(h, append(append([]byte{}, content...), 0), all[who], sig) {
			t.Fatal("signature verifies for other content")
		}
		if len(sig) > 0 {
			bad := append([]byte{}, sig...)
			bad[rapid.IntRange(0, len(bad)-1).Draw(t, "i")] ^= 1
			if r.VerifyMsg(h, content, all[who], bad) {
				t.Fatal("a flipped bit still verifies")
			}
		}
		if r.VerifyMsg(h, content, all[who], nil) || r.VerifyMsg(h, content, all[who], sig[:len(sig)/2]) {
			t.Fatal("an empty / truncated signature verifies")
		}
	})
}

func share(id primitives.MemberId, sig []byte) *protocol.SenderSignature {
	return (&protocol.SenderSignatureBuilder{MemberId: id, Signature: sig}).Build()
}

func TestSharesAndAggregate(t *testing.T) {
	rapid.Check(t, func(t *rapid.T) {
		r := NewRegistry()
		all := ids(5)
		for _, id := range all {
			r.Add(id)
		}
		h := primitives.BlockHeight(rapid.Uint64Range(1, 1<<40).Draw(t, "h"))
		content := rapid.SliceOfN(rapid.Byte(), 1, 16).Draw(t, "seed")
		for i, id := range all {
			s := r.ShareAs(id, h, content)
			if !r.VerifyShare(h, content, id, s) {
				t.Fatal("genuine share does not verify")
			}
			if r.VerifyShare(h, content, all[(i+1)%5], s) || r.VerifyShare(h+1, content, id, s) || r.VerifyShare(h, append([]byte{1}, content...), id, s) {
				t.Fatal("share verifies for another member / height / seed")
			}
		}
		// the aggregate of ANY non-empty set of distinct valid shares is the unique master signature ...
		var a, b []*protocol.SenderSignature
		for i, id := range all {
			if rapid.Bool().Draw(t, "ina") || i == 0 {
				a = append(a, share(id, r.ShareAs(id, h, content)))
			}
			if rapid.Bool().Draw(t, "inb") || i == 4 {
				b = append(b, share(id, r.ShareAs(id, h, content)))
			}
		}
		ma, mb := r.Aggregate(h, a), r.Aggregate(h, b)
		if !bytes.Equal(ma, mb) || !r.VerifyMasterSeedSig(h, content, ma) {
			t.Fatal("aggregate is not the unique master signature")
		}
		// ... and one bad, duplicated or foreign-seed share ruins it
		bad := append(append([]*protocol.SenderSignature{}, a...), share(all[1], []byte("garbage-share")))
		if r.VerifyMasterSeedSig(h, content, r.Aggregate(h, bad)) {
			t.Fatal("aggregate with a garbage share verifies")
		}
		dup := append(append([]*protocol.SenderSignature{}, a...), a[0])
		if r.VerifyMasterSeedSig(h, content, r.Aggregate(h, dup)) {
			t.Fatal("aggregate with a duplicated share verifies")
		}
		foreign := append(append([]*protocol.SenderSignature{}, a...), share(all[2], r.ShareAs(all[2], h, append([]byte{9}, content...))))
		if len(a) < 5 && r.VerifyMasterSeedSig(h, content, r.Aggregate(h, foreign)) {
			t.Fatal("aggregate with a share over another seed verifies")
		}
		if r.VerifyMasterSeedSig(h+1, content, ma) {
			t.Fatal("master signature verifies for another height")
		}
	})
}
