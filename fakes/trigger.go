package fakes

import (
	"github.com/orbs-network/lean-helix-go/services/interfaces"
	"github.com/orbs-network/lean-helix-go/spec/types/go/primitives"
	"github.com/orbs-network/lean-helix-go/state"
)

// MakeTrigger builds what triggerElections() in the real timer sends on the election channel.
func MakeTrigger(h primitives.BlockHeight, v primitives.View, cb ElectionCB) *interfaces.ElectionTrigger {
	return &interfaces.ElectionTrigger{
		MoveToNextLeader: func() {
			if cb != nil {
				cb(h, v, nil)
			}
		},
		Hv: state.NewHeightView(h, v),
	}
}
