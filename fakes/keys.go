// Package fakes holds the consumer-side SPIs (the trusted base of every check):
// a key registry with unforgeable signatures, blocks and BlockUtils, Membership,
// Communication, a recording Storage wrapper and a virtual election scheduler.
package fakes

import (
	"bytes"
	"context"
	"crypto/hmac"
	"crypto/sha256"
	"encoding/binary"
	"errors"

	"github.com/orbs-network/lean-helix-go/spec/types/go/primitives"
	"github.com/orbs-network/lean-helix-go/spec/types/go/protocol"
)

// Registry is the set of identities that own a key. A signature verifies only if it was
// produced with the claimed sender's secret. Membership in a committee is NOT checked here
// (a real signature scheme does not know about committees).
type Registry struct {
	secrets map[string][]byte
	master  []byte
	// SigLen / ShareLen >= 0 make every signature / seed share exactly that many bytes (the MAC stretched or cut);
	// -1 (default) keeps the natural 32 / 64 bytes. Only the wire round-trip check (C20) uses other lengths.
	SigLen, ShareLen int
	// Counters (observability only)
	Verifies int
}

func NewRegistry() *Registry {
	m := sha256.Sum256([]byte("master-secret"))
	return &Registry{secrets: map[string][]byte{}, master: m[:], SigLen: -1, ShareLen: -1}
}

func (r *Registry) Add(id primitives.MemberId) {
	s := sha256.Sum256(append([]byte("secret-of-"), id...))
	r.secrets[string(id)] = s[:]
}

func (r *Registry) Has(id primitives.MemberId) bool {
	_, ok := r.secrets[string(id)]
	return ok
}

// fit stretches or cuts b to n bytes (n < 0: unchanged).
func fit(b []byte, n int) []byte {
	if n < 0 {
		return b
	}
	out := make([]byte, 0, n)
	for len(out) < n {
		x := sha256.Sum256(append(b, byte(len(out))))
		out = append(out, x[:]...)
	}
	return out[:n]
}

func mac(secret []byte, domain string, h primitives.BlockHeight, content []byte) []byte {
	m := hmac.New(sha256.New, secret)
	m.Write([]byte(domain))
	var hb [8]byte
	binary.LittleEndian.PutUint64(hb[:], uint64(h))
	m.Write(hb[:])
	m.Write(content)
	return m.Sum(nil)
}

// SignAs signs a consensus message header as id. Panics for unknown ids: callers decide who may sign as whom.
func (r *Registry) SignAs(id primitives.MemberId, h primitives.BlockHeight, content []byte) primitives.Signature {
	s, ok := r.secrets[string(id)]
	if !ok {
		panic("SignAs: unknown identity " + id.String())
	}
	return fit(mac(s, "msg", h, content), r.SigLen)
}

func (r *Registry) VerifyMsg(h primitives.BlockHeight, content []byte, id primitives.MemberId, sig []byte) bool {
	s, ok := r.secrets[string(id)]
	if !ok {
		return false
	}
	return hmac.Equal(fit(mac(s, "msg", h, content), r.SigLen), sig)
}

// ShareAs produces id's random seed share over content: HMAC(secret, "seed"|h|H(content)) | H(content).
func (r *Registry) ShareAs(id primitives.MemberId, h primitives.BlockHeight, content []byte) primitives.RandomSeedSignature {
	s, ok := r.secrets[string(id)]
	if !ok {
		panic("ShareAs: unknown identity " + id.String())
	}
	ch := sha256.Sum256(content)
	return fit(append(mac(s, "seed", h, ch[:]), ch[:]...), r.ShareLen)
}

func (r *Registry) VerifyShare(h primitives.BlockHeight, content []byte, id primitives.MemberId, share []byte) bool {
	s, ok := r.secrets[string(id)]
	if ok && r.ShareLen >= 0 {
		ch := sha256.Sum256(content)
		return hmac.Equal(fit(append(mac(s, "seed", h, ch[:]), ch[:]...), r.ShareLen), share)
	}
	if !ok || len(share) != 64 {
		return false
	}
	ch := sha256.Sum256(content)
	if !bytes.Equal(share[32:], ch[:]) {
		return false
	}
	return hmac.Equal(mac(s, "seed", h, ch[:]), share[:32])
}

// MasterSeedSig is the unique group signature over (h, content).
func (r *Registry) MasterSeedSig(h primitives.BlockHeight, content []byte) primitives.RandomSeedSignature {
	ch := sha256.Sum256(content)
	return mac(r.master, "seed", h, ch[:])
}

func (r *Registry) VerifyMasterSeedSig(h primitives.BlockHeight, content []byte, sig []byte) bool {
	return hmac.Equal(r.MasterSeedSig(h, content), sig)
}

// Aggregate models a threshold signature: unique regardless of which valid shares are given,
// garbage if any share is invalid, duplicated, or for a different content.
func (r *Registry) Aggregate(h primitives.BlockHeight, shares []*protocol.SenderSignature) primitives.RandomSeedSignature {
	bad := func() primitives.RandomSeedSignature {
		x := sha256.New()
		x.Write([]byte("bad-aggregate"))
		for _, s := range shares {
			x.Write(s.Raw())
		}
		return x.Sum(nil)
	}
	if len(shares) == 0 {
		return bad()
	}
	seen := map[string]bool{}
	var ch []byte
	for _, sh := range shares {
		id := sh.MemberId()
		sig := []byte(sh.Signature())
		sec, ok := r.secrets[string(id)]
		if !ok || len(sig) != 64 || seen[string(id)] {
			return bad()
		}
		seen[string(id)] = true
		if ch == nil {
			ch = sig[32:]
		} else if !bytes.Equal(ch, sig[32:]) {
			return bad()
		}
		if !hmac.Equal(mac(sec, "seed", h, sig[32:]), sig[:32]) {
			return bad()
		}
	}
	return mac(r.master, "seed", h, ch)
}

// KeyManager is one node's view of the registry (implements interfaces.KeyManager).
type KeyManager struct {
	Reg *Registry
	Me  primitives.MemberId
}

func (k *KeyManager) SignConsensusMessage(ctx context.Context, h primitives.BlockHeight, content []byte) primitives.Signature {
	return k.Reg.SignAs(k.Me, h, content)
}

func (k *KeyManager) VerifyConsensusMessage(h primitives.BlockHeight, content []byte, sender *protocol.SenderSignature) error {
	k.Reg.Verifies++
	if sender == nil {
		return errors.New("nil sender")
	}
	if !k.Reg.VerifyMsg(h, content, sender.MemberId(), sender.Signature()) {
		return errors.New("bad signature")
	}
	return nil
}

func (k *KeyManager) SignRandomSeed(ctx context.Context, h primitives.BlockHeight, content []byte) primitives.RandomSeedSignature {
	return k.Reg.ShareAs(k.Me, h, content)
}

func (k *KeyManager) VerifyRandomSeed(h primitives.BlockHeight, content []byte, sender *protocol.SenderSignature) error {
	if sender == nil {
		return errors.New("nil sender")
	}
	if len(sender.MemberId()) == 0 {
		if !k.Reg.VerifyMasterSeedSig(h, content, sender.Signature()) {
			return errors.New("bad master seed signature")
		}
		return nil
	}
	if !k.Reg.VerifyShare(h, content, sender.MemberId(), sender.Signature()) {
		return errors.New("bad seed share")
	}
	return nil
}

func (k *KeyManager) AggregateRandomSeed(h primitives.BlockHeight, shares []*protocol.SenderSignature) primitives.RandomSeedSignature {
	return k.Reg.Aggregate(h, shares)
}
