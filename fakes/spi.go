package fakes

import (
	"context"
	"crypto/sha256"
	"encoding/binary"
	"errors"
	"fmt"
	"sync"
	"time"

	"github.com/orbs-network/lean-helix-go/services/interfaces"
	"github.com/orbs-network/lean-helix-go/services/storage"
	"github.com/orbs-network/lean-helix-go/spec/types/go/primitives"
)

// ---------------------------------------------------------------- blocks

type Block struct {
	H     primitives.BlockHeight
	Ref   primitives.TimestampSeconds
	ID    string // proposer/height/counter or adversary tag
	Prev  string // ID of the previous block ("" for genesis)
	Valid bool   // consumer-level validity flag: every correct validator rejects a block with Valid=false
}

func (b *Block) Height() primitives.BlockHeight             { return b.H }
func (b *Block) ReferenceTime() primitives.TimestampSeconds { return b.Ref }
func (b *Block) String() string {
	return fmt.Sprintf("B(%s h=%d prev=%q valid=%v)", b.ID, b.H, b.Prev, b.Valid)
}

func (b *Block) Hash() primitives.BlockHash {
	x := sha256.New()
	var hb [12]byte
	binary.LittleEndian.PutUint64(hb[:8], uint64(b.H))
	binary.LittleEndian.PutUint32(hb[8:], uint32(b.Ref))
	x.Write(hb[:])
	x.Write([]byte(b.ID))
	x.Write([]byte{0})
	x.Write([]byte(b.Prev))
	if b.Valid {
		x.Write([]byte{1})
	} else {
		x.Write([]byte{0})
	}
	return x.Sum(nil)
}

// AsBlock converts an interfaces.Block to *Block (nil if it is nil or of another type).
func AsBlock(b interfaces.Block) *Block {
	if b == nil {
		return nil
	}
	bb, _ := b.(*Block)
	return bb
}

func BlockID(b interfaces.Block) string {
	bb := AsBlock(b)
	if bb == nil {
		return ""
	}
	return bb.ID
}

// Gate is called at the entry of every blocking SPI (engine R uses it to hold calls). May be nil.
type Gate func(kind string, ctx context.Context, h primitives.BlockHeight)

type ValidateCall struct {
	H       primitives.BlockHeight
	BlockID string
	Hash    string
	OK      bool
	CtxErr  bool   // context already cancelled at entry
	GaveUp  bool   // the context was cancelled while the call was in progress and the consumer returned nil without a verdict
	PrevID  string // id of the prevBlock the library passed ("" for nil): identifies the term that made the call
}

type ProposalCall struct {
	H               primitives.BlockHeight
	BlockID         string
	CtxErr          bool
	CancelledDuring bool // the context was cancelled while the call was in progress (its result was produced under a cancelled context)
	PrevID          string
}

// BlockUtils is one node's consumer-side block logic.
type BlockUtils struct {
	mu        sync.Mutex
	Me        string
	counter   int
	Gate      Gate
	gateHash  string // hash of the proposal whose validation is entering the gate (read by the gate through GateHash)
	Validates []ValidateCall
	Proposals []ProposalCall
	// AcceptAll makes this node's validator approve everything, even a missing block (a careless consumer: C12 only).
	AcceptAll bool
	// GiveUpOnCancel: a validation whose context is cancelled while it runs is abandoned - the consumer returns nil without having
	// checked anything (what the repository's own pausable test consumer does). The library must not use such a result.
	GiveUpOnCancel bool
	// Reject, when set, lets a case make this node's validator reject additional blocks.
	Reject func(b *Block) bool
	// Proposed holds every block this node's RequestNewBlockProposal returned.
	Proposed map[string]*Block
}

// GateHash: the hash of the proposal whose ValidateBlockProposal call is entering the gate right now.
func (u *BlockUtils) GateHash() string { u.mu.Lock(); defer u.mu.Unlock(); return u.gateHash }

func NewBlockUtils(me string) *BlockUtils {
	return &BlockUtils{Me: me, Proposed: map[string]*Block{}}
}

func (u *BlockUtils) RequestNewBlockProposal(ctx context.Context, h primitives.BlockHeight, memberId primitives.MemberId, prevBlock interfaces.Block) (interfaces.Block, primitives.BlockHash) {
	ctxErr := ctx.Err() != nil
	if u.Gate != nil {
		u.Gate("propose", ctx, h)
	}
	u.mu.Lock()
	defer u.mu.Unlock()
	u.counter++
	b := &Block{H: h, Ref: primitives.TimestampSeconds(1000 + uint32(h)), ID: fmt.Sprintf("%s/%d/%d", u.Me, h, u.counter), Prev: BlockID(prevBlock), Valid: true}
	u.Proposed[b.ID] = b
	u.Proposals = append(u.Proposals, ProposalCall{H: h, BlockID: b.ID, CtxErr: ctxErr, CancelledDuring: !ctxErr && ctx.Err() != nil, PrevID: BlockID(prevBlock)})
	return b, b.Hash()
}

// ValidProposal is the consumer's validity rule (shared by every correct node).
func ValidProposal(h primitives.BlockHeight, block interfaces.Block, hash primitives.BlockHash, prevBlock interfaces.Block) error {
	b := AsBlock(block)
	if b == nil {
		return errors.New("nil block")
	}
	if b.H != h {
		return errors.New("wrong height")
	}
	if !b.Hash().Equal(hash) {
		return errors.New("hash mismatch")
	}
	if b.Prev != BlockID(prevBlock) {
		return errors.New("does not link to prev block")
	}
	if !b.Valid {
		return errors.New("consumer-invalid block")
	}
	return nil
}

func (u *BlockUtils) ValidateBlockProposal(ctx context.Context, h primitives.BlockHeight, memberId primitives.MemberId, block interfaces.Block, hash primitives.BlockHash, prevBlock interfaces.Block) error {
	ctxErr := ctx.Err() != nil
	if u.Gate != nil {
		u.mu.Lock()
		u.gateHash = string(hash)
		u.mu.Unlock()
		u.Gate("validate", ctx, h)
	}
	if u.GiveUpOnCancel && !ctxErr && ctx.Err() != nil {
		u.mu.Lock()
		u.Validates = append(u.Validates, ValidateCall{H: h, BlockID: BlockID(block), Hash: string(hash), OK: false, GaveUp: true, PrevID: BlockID(prevBlock)})
		u.mu.Unlock()
		return nil
	}
	err := ValidProposal(h, block, hash, prevBlock)
	if u.AcceptAll {
		err = nil
	}
	if err == nil && u.Reject != nil && u.Reject(AsBlock(block)) {
		err = errors.New("rejected by this node's verdict table")
	}
	u.mu.Lock()
	u.Validates = append(u.Validates, ValidateCall{H: h, BlockID: BlockID(block), Hash: string(hash), OK: err == nil, CtxErr: ctxErr, PrevID: BlockID(prevBlock)})
	u.mu.Unlock()
	return err
}

func (u *BlockUtils) ValidateBlockCommitment(h primitives.BlockHeight, block interfaces.Block, hash primitives.BlockHash) bool {
	b := AsBlock(block)
	return b != nil && b.H == h && b.Hash().Equal(hash)
}

// ---------------------------------------------------------------- membership

type CommitteeFn func(h primitives.BlockHeight) []interfaces.CommitteeMember

type Membership struct {
	Me        primitives.MemberId
	Committee CommitteeFn
	Gate      Gate
	// FailFirst makes the first k RequestOrderedCommittee calls fail (engine R only).
	FailFirst int
	// PlainErr: a failing lookup reports "not available" even when its context has been cancelled (it does not wrap ctx.Err()).
	PlainErr bool
	// FailProofCommittee makes RequestCommitteeForBlockProof fail (a committee service that is down while the caller's context lives).
	FailProofCommittee bool
	mu                 sync.Mutex
	Calls              int
	CtxErrAtEntry      int
}

func (m *Membership) MyMemberId() primitives.MemberId { return m.Me }

func (m *Membership) RequestOrderedCommittee(ctx context.Context, h primitives.BlockHeight, randomSeed uint64, prevRef primitives.TimestampSeconds) ([]interfaces.CommitteeMember, error) {
	m.mu.Lock()
	m.Calls++
	if ctx.Err() != nil {
		m.CtxErrAtEntry++
	}
	fail := m.FailFirst > 0
	if fail {
		m.FailFirst--
	}
	m.mu.Unlock()
	if m.Gate != nil {
		m.Gate("committee", ctx, h)
	}
	if fail {
		if ctx.Err() != nil && !m.PlainErr { // a consumer that honours its context and says so
			return nil, ctx.Err()
		}
		return nil, errors.New("committee not available yet")
	}
	return m.Committee(h), nil
}

func (m *Membership) RequestCommitteeForBlockProof(ctx context.Context, h primitives.BlockHeight, prevRef primitives.TimestampSeconds) ([]interfaces.CommitteeMember, error) {
	if m.FailProofCommittee {
		return nil, errors.New("committee service unavailable")
	}
	c := m.Committee(h)
	// unordered: return reversed copy so nothing can rely on the order
	out := make([]interfaces.CommitteeMember, len(c))
	for i := range c {
		out[len(c)-1-i] = c[i]
	}
	return out, nil
}

// ---------------------------------------------------------------- communication

type SendFn func(recipients []primitives.MemberId, msg *interfaces.ConsensusRawMessage)

type Communication struct {
	Send SendFn
	// Fail, when set, is asked before every send: it returns the recipients that actually get the message and the error that
	// SendConsensusMessage reports to the library (a transport that fails half way through a broadcast).
	Fail func(recipients []primitives.MemberId, message *interfaces.ConsensusRawMessage) ([]primitives.MemberId, error)
}

func (c *Communication) SendConsensusMessage(ctx context.Context, recipients []primitives.MemberId, message *interfaces.ConsensusRawMessage) error {
	var err error
	if c.Fail != nil {
		recipients, err = c.Fail(recipients, message)
	}
	c.Send(recipients, message)
	return err
}

// ---------------------------------------------------------------- storage recorder

type StoreEvent struct {
	Kind   string // "PP","P","C","VC"
	H      primitives.BlockHeight
	V      primitives.View
	Hash   string
	Sender string
	Stored bool
	Msg    interfaces.ConsensusMessage
}

// RecStorage wraps the real in-memory storage and records every Store* call and its result.
type RecStorage struct {
	*storage.InMemoryStorage
	mu     sync.Mutex
	Log    []StoreEvent
	Clears []primitives.BlockHeight // every ClearBlockHeightLogs call
}

func (s *RecStorage) ClearBlockHeightLogs(h primitives.BlockHeight) {
	s.mu.Lock()
	s.Clears = append(s.Clears, h)
	s.mu.Unlock()
	s.InMemoryStorage.ClearBlockHeightLogs(h)
}

// NClears / NLog: lengths under the lock (engine R reads them from another goroutine).
func (s *RecStorage) NClears() int { s.mu.Lock(); defer s.mu.Unlock(); return len(s.Clears) }
func (s *RecStorage) NLog() int    { s.mu.Lock(); defer s.mu.Unlock(); return len(s.Log) }

func NewRecStorage() *RecStorage {
	return &RecStorage{InMemoryStorage: storage.NewInMemoryStorage()}
}

func (s *RecStorage) rec(e StoreEvent) {
	s.mu.Lock()
	s.Log = append(s.Log, e)
	s.mu.Unlock()
}

func (s *RecStorage) StorePreprepare(m *interfaces.PreprepareMessage) bool {
	ok := s.InMemoryStorage.StorePreprepare(m)
	s.rec(StoreEvent{"PP", m.BlockHeight(), m.View(), string(m.Content().SignedHeader().BlockHash()), string(m.SenderMemberId()), ok, m})
	return ok
}

func (s *RecStorage) StorePrepare(m *interfaces.PrepareMessage) bool {
	ok := s.InMemoryStorage.StorePrepare(m)
	s.rec(StoreEvent{"P", m.BlockHeight(), m.View(), string(m.Content().SignedHeader().BlockHash()), string(m.SenderMemberId()), ok, m})
	return ok
}

func (s *RecStorage) StoreCommit(m *interfaces.CommitMessage) bool {
	ok := s.InMemoryStorage.StoreCommit(m)
	s.rec(StoreEvent{"C", m.BlockHeight(), m.View(), string(m.Content().SignedHeader().BlockHash()), string(m.SenderMemberId()), ok, m})
	return ok
}

func (s *RecStorage) StoreViewChange(m *interfaces.ViewChangeMessage) bool {
	ok := s.InMemoryStorage.StoreViewChange(m)
	s.rec(StoreEvent{"VC", m.BlockHeight(), m.View(), "", string(m.SenderMemberId()), ok, m})
	return ok
}

// ---------------------------------------------------------------- virtual election scheduler

type Registration struct {
	H primitives.BlockHeight
	V primitives.View
}

type ElectionCB = func(h primitives.BlockHeight, v primitives.View, cb interfaces.OnElectionCallback)

// Sched is an ElectionScheduler whose firing is decided by the harness.
type Sched struct {
	mu      sync.Mutex
	ch      chan *interfaces.ElectionTrigger
	Active  bool
	Cur     Registration
	cb      ElectionCB
	Log     []Registration // every RegisterOnElection call, in order
	Armings []Registration // calls that (re-)armed, i.e. were not a no-op repeat of the active pair
	Stops   int
	Base    time.Duration
}

func NewSched() *Sched {
	return &Sched{ch: make(chan *interfaces.ElectionTrigger), Base: time.Second}
}

func (s *Sched) RegisterOnElection(h primitives.BlockHeight, v primitives.View, cb ElectionCB) {
	s.mu.Lock()
	defer s.mu.Unlock()
	s.Log = append(s.Log, Registration{h, v})
	if s.Active && s.Cur.H == h && s.Cur.V == v {
		return // as the real trigger: same pair does not re-arm
	}
	s.Active = true
	s.Cur = Registration{h, v}
	s.cb = cb
	s.Armings = append(s.Armings, s.Cur)
}

func (s *Sched) ElectionChannel() chan *interfaces.ElectionTrigger { return s.ch }

func (s *Sched) CalcTimeout(v primitives.View) time.Duration { return s.Base }

func (s *Sched) Stop() {
	s.mu.Lock()
	s.Active = false
	s.cb = nil
	s.Stops++
	s.mu.Unlock()
}

// Snap: (active, current registration, number of Stop calls, number of RegisterOnElection calls) under the lock.
func (s *Sched) Snap() (bool, Registration, int, int) {
	s.mu.Lock()
	defer s.mu.Unlock()
	return s.Active, s.Cur, s.Stops, len(s.Log)
}

// Trigger builds the ElectionTrigger the real timer would put on the channel for the active registration.
func (s *Sched) Trigger() *interfaces.ElectionTrigger {
	s.mu.Lock()
	defer s.mu.Unlock()
	if !s.Active || s.cb == nil {
		return nil
	}
	h, v, cb := s.Cur.H, s.Cur.V, s.cb
	return MakeTrigger(h, v, cb)
}

// LastArmedBefore: the latest registration that is lexicographically older than (h, v).
func (s *Sched) LastArmedBefore(h primitives.BlockHeight, v primitives.View) (primitives.BlockHeight, primitives.View, bool) {
	s.mu.Lock()
	defer s.mu.Unlock()
	for i := len(s.Log) - 1; i >= 0; i-- {
		r := s.Log[i]
		if r.H < h || (r.H == h && r.V < v) {
			return r.H, r.V, true
		}
	}
	return 0, 0, false
}

// TriggerFor builds a trigger for an arbitrary pair using the currently registered callback (stale / future triggers).
func (s *Sched) TriggerFor(h primitives.BlockHeight, v primitives.View) *interfaces.ElectionTrigger {
	s.mu.Lock()
	defer s.mu.Unlock()
	if s.cb == nil {
		return nil
	}
	// a timer can only fire for a pair it was armed for at some time (now = current trigger, earlier = stale trigger); a pair the
	// node's state already shows but the new term has not registered yet is not something its own timer can produce
	armed := false
	for _, r := range s.Log {
		if r.H == h && r.V == v {
			armed = true
			break
		}
	}
	if !armed {
		return nil
	}
	return MakeTrigger(h, v, s.cb)
}
