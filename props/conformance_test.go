package props

import (
	"fmt"
	"testing"
	"time"

	"github.com/orbs-network/lean-helix-go/services/interfaces"
	"pgregory.net/rapid"

	"verif/ev"
	"verif/rt"
	"verif/sim"
)

// Drift guard for the verif-tagged step functions: the same event sequence (messages, election triggers) is run through
// VerifNode (engine N) and through the unmodified MainLoop.Run (engine R, one event at a time, settling in between);
// the observable outputs must be identical. A mismatch is an infrastructure failure of the harness, not a property verdict.

type confOut struct {
	sends   []string
	commits []string
	rounds  []string
	h, v    uint64
}

func metaStr(raw *interfaces.ConsensusRawMessage) string {
	m := sim.MetaOf(raw)
	return fmt.Sprintf("%d:h%d:v%d:%x", m.Union, m.H, m.V, m.Hash)
}

func TestHookConformance(t *testing.T) {
	col := ev.Get("CONF")
	rapid.Check(t, func(t *rapid.T) {
		n := rapid.IntRange(4, 6).Draw(t, "n")
		me := rapid.IntRange(0, n-1).Draw(t, "me")
		rot := rapid.IntRange(0, n-1).Draw(t, "rot")
		cfg := sim.Config{N: n, Weights: make([]uint64, n), Order: seq(n), Rot: rot, MaxHeight: 3, Focus: "NONE"}
		for i := range cfg.Weights {
			cfg.Weights[i] = 1
		}
		c := sim.NCase{Cfg: cfg, Me: me}
		for i := rapid.IntRange(1, 10).Draw(t, "nsteps"); i > 0; i-- {
			switch rapid.IntRange(0, 6).Draw(t, "k") {
			case 0:
				c.Steps = append(c.Steps, sim.NStep{K: "timeout"})
			case 1:
				c.Steps = append(c.Steps, sim.NStep{K: "propose", View: uint64(rapid.IntRange(0, 3).Draw(t, "view")), A: rapid.IntRange(0, 15).Draw(t, "a")})
			case 2:
				c.Steps = append(c.Steps, sim.NStep{K: "prepares", View: uint64(rapid.IntRange(0, 3).Draw(t, "view"))})
			case 3:
				c.Steps = append(c.Steps, sim.NStep{K: "commits", View: uint64(rapid.IntRange(0, 3).Draw(t, "view"))})
			default:
				st := sim.NStep{K: "cand", Kind: rapid.SampledFrom([]string{"PP", "P", "C", "VC", "NV"}).Draw(t, "kind"), From: rapid.IntRange(0, 8).Draw(t, "from"),
					A: rapid.IntRange(0, 15).Draw(t, "ca"), B: rapid.IntRange(0, 15).Draw(t, "cb")}
				if st.Kind == "VC" {
					// votes without a scripted proof only: a scripted proof may certify ANOTHER block for the very view the node itself
					// is prepared in (the harness holds all other keys). Which of two certificates of one view an elected leader then
					// re-proposes depends on Go's map iteration order inside the library - in both paths, independently - and would
					// show up here as drift although the hooks are not involved (seen once, at seed 42)
					st.B = 0
				}
				c.Steps = append(c.Steps, st)
			}
		}
		// path A: VerifNode
		r := sim.RunNCase(c)
		var a confOut
		for _, s := range r.Me.Sent {
			a.sends = append(a.sends, metaStr(s.Raw))
		}
		for _, cm := range r.Me.Commits {
			a.commits = append(a.commits, fmt.Sprintf("%d:%s", cm.H, cm.Block.ID))
		}
		for _, rd := range r.Me.Rounds {
			a.rounds = append(a.rounds, fmt.Sprintf("%d:%s:%v", rd.H, rd.PrevID, rd.CanBeFirst))
		}
		a.h, a.v = r.Me.H(), r.Me.V()
		// path B: the real loops, same events in the same order
		byID := map[int]*sim.Msg{}
		for _, m := range r.W.AdvSent {
			byID[m.ID] = m
		}
		h := rt.New(rt.Config{N: n, Me: me, Rot: rot})
		h.Start()
		h.UpdateState(nil, nil, nil)
		ok := h.Settle(5 * time.Second)
		for _, act := range r.W.Trace {
			if !ok {
				break
			}
			switch act.K {
			case "deliver":
				if m := byID[act.ID]; m != nil {
					h.SendRaw(m.Raw)
				}
			case "timeout":
				hh, vv := h.HV()
				h.Trigger(hh, vv)
			}
			ok = h.Settle(5 * time.Second)
		}
		var b confOut
		for _, raw := range h.Sent {
			b.sends = append(b.sends, metaStr(raw))
		}
		for _, cm := range h.Commits {
			b.commits = append(b.commits, fmt.Sprintf("%d:%s", cm.H, cm.Block.ID))
		}
		for _, rd := range h.Rounds {
			b.rounds = append(b.rounds, fmt.Sprintf("%d:%s:%v", rd.H, rd.PrevID, rd.CanBeFirst))
		}
		b.h, b.v = h.HV()
		h.Shutdown(10 * time.Second)
		col.Case()
		if !ok {
			col.Inconcl()
			return
		}
		col.NonTrivial(fmt.Sprint(c))
		if fmt.Sprint(a) != fmt.Sprint(b) {
			t.Fatalf("HOOK DRIFT: VerifNode and the real loops disagree on the same event sequence\nsteps=%+v\nverifnode=%+v\nrealloops=%+v", c.Steps, a, b)
		}
	})
}
