package props

import (
	"fmt"
	"testing"

	"verif/sim"
)

func TestSimHonestRun(t *testing.T) {
	cfg := sim.Config{N: 4, Weights: []uint64{1, 1, 1, 1}, Order: []int{0, 1, 2, 3}, Rot: 1, MaxHeight: 3, Focus: "ALL"}
	w := sim.RunCase(cfg, []sim.Action{{K: "run", N: 1000}})
	if w.Viol != nil {
		t.Fatalf("violation in honest run: %v", w.Viol)
	}
	for i, n := range w.Nodes {
		fmt.Printf("node %d: h=%d v=%d commits=%d sent=%d\n", i, n.H(), n.V(), len(n.Commits), len(n.Sent))
		if len(n.Commits) != 3 {
			t.Errorf("node %d committed %d heights, want 3", i, len(n.Commits))
		}
	}
	fmt.Println("delivered", w.Obs.Delivered, "pool", len(w.Pool))
}

// Scripted forged-votes attack (DESIGN.md section 9): n=4 unit weights, member 1 Byzantine (leader of view 1).
func TestSimForgedVotesScript(t *testing.T) {
	cfg := sim.Config{N: 4, Weights: []uint64{1, 1, 1, 1}, Order: []int{0, 1, 2, 3}, Rot: 0, Byz: []int{1}, MaxHeight: 1, Focus: "C01"}
	acts := []sim.Action{
		{K: "hold", Hold: &sim.HoldRule{Types: 1 << sim.UC, To: 0b1100, From: 0xffff}},              // COMMITs to nodes 2,3 are delayed
		{K: "byz", Byz: &sim.ByzSpec{Strat: "prepare", As: 1, To: 0b1101, H: 1, V: 0, P: []int{4}}}, // Byzantine prepares for the honest proposal
		{K: "run", N: 100},
		{K: "byz", Byz: &sim.ByzSpec{Strat: "commit", As: 1, To: 0b0001, H: 1, V: 0, P: []int{4, 0}}},
		{K: "run", N: 100},
		{K: "timeouts", Mask: 0b1100},
		{K: "drop", ID: -1},
		{K: "byz", Byz: &sim.ByzSpec{Strat: "nv", As: 1, To: 0b1100, H: 1, V: 1, P: []int{1, 0, 0, 0, 1}}},
		{K: "run", N: 100},
		{K: "byz", Byz: &sim.ByzSpec{Strat: "commit", As: 1, To: 0b1100, H: 1, V: 1, P: []int{0, 0}}},
		{K: "run", N: 100},
	}
	w := sim.NewWorld(cfg)
	w.Start()
	for _, a := range acts {
		if a.K == "drop" && a.ID == -1 { // the delayed view-0 COMMITs are lost
			for _, m := range append([]*sim.Msg{}, w.Pool...) {
				w.Apply(sim.Action{K: "drop", ID: m.ID})
			}
			w.Apply(sim.Action{K: "release"})
			continue
		}
		w.Apply(a)
	}
	for i, n := range w.Nodes {
		if n != nil {
			fmt.Printf("node %d: h=%d v=%d commits=%d\n", i, n.H(), n.V(), len(n.Commits))
		}
	}
	fmt.Println("violation:", w.Viol)
}
