package props

import (
	"github.com/orbs-network/lean-helix-go/services/interfaces"

	"verif/fakes"
	"verif/sim"
)

func rawOf(content []byte) *interfaces.ConsensusRawMessage {
	return &interfaces.ConsensusRawMessage{Content: content}
}

func blockOf(sp *sim.MsgSpec) *fakes.Block {
	if sp == nil {
		return nil
	}
	return sp.Block
}
