package props

import (
	"encoding/json"
	"testing"

	"pgregory.net/rapid"

	"verif/ev"
	"verif/sim"
)

// Native fuzz targets (thorough tier): coverage-guided byte streams drive the same structured generators (rapid.MakeFuzz),
// the semantic oracle is inside the target. Fresh state per iteration (every run builds its own world).

func FuzzC02(f *testing.F) {
	f.Add([]byte{})
	f.Add([]byte("seed-corpus-1"))
	f.Fuzz(rapid.MakeFuzz(func(t *rapid.T) {
		c := drawC02(t)
		ev.Get("C02").Case()
		if v, _, _ := runC02(c); v != nil {
			if msg := ev.Report(v); msg != "" {
				t.Fatal(msg)
			}
		}
	}))
}

func FuzzC20(f *testing.F) {
	f.Add([]byte{})
	f.Add([]byte("seed-corpus-1"))
	f.Fuzz(rapid.MakeFuzz(func(t *rapid.T) {
		c := c20Case{Kind: rapid.SampledFrom([]string{"PP", "P", "C", "VC", "NV", "PROOF"}).Draw(t, "kind"), Inst: rapid.Uint64().Draw(t, "inst"), H: rapid.Uint64().Draw(t, "h"), V: rapid.Uint64().Draw(t, "v"),
			Block: rapid.Bool().Draw(t, "block"), Seed: rapid.Uint64().Draw(t, "seed"), Hash: rapid.SliceOfN(rapid.Byte(), 0, 256).Draw(t, "hash"),
			NPrep: rapid.IntRange(0, 20).Draw(t, "nprep"), NVotes: rapid.IntRange(0, 20).Draw(t, "nvotes")}
		for i := 0; i < 2+maxI(c.NPrep, c.NVotes); i++ {
			id := append(rapid.SliceOfN(rapid.Byte(), 0, 64).Draw(t, "id"), byte(i), byte(i>>8))
			c.IDs = append(c.IDs, id)
		}
		if c.V > 0 {
			c.ProofV = rapid.Uint64Range(0, c.V-1).Draw(t, "pv")
		} else {
			c.ProofV = 1
		}
		for k := 0; k < c.NVotes; k++ {
			c.VoteProof = append(c.VoteProof, rapid.Bool().Draw(t, "vp"))
		}
		ev.Get("C20").Case()
		if v := runC20(c); v != nil {
			if msg := ev.Report(v); msg != "" {
				t.Fatal(msg)
			}
		}
	}))
}

func FuzzC12(f *testing.F) {
	f.Add([]byte{})
	f.Add([]byte("seed-corpus-1"))
	f.Fuzz(rapid.MakeFuzz(func(t *rapid.T) {
		kinds := []string{"PP", "P", "C", "VC", "NV"}
		nc := drawNCase(t, nOpts{Focus: "C12", Kinds: kinds, MaxCands: 1})
		var steps []sim.NStep
		for _, st := range nc.Steps {
			if st.K != "cand" {
				steps = append(steps, st)
			}
		}
		nc.Steps = steps
		c := c12Case{N: nc, Mode: "raw", Cand: sim.NStep{K: "cand", Kind: rapid.SampledFrom(kinds).Draw(t, "kind"), From: rapid.IntRange(0, 8).Draw(t, "from"), A: rapid.IntRange(0, 15).Draw(t, "a"), B: rapid.IntRange(0, 15).Draw(t, "b")}}
		for k := rapid.IntRange(0, 4).Draw(t, "nops"); k > 0; k-- {
			c.ByteOps = append(c.ByteOps, byteOp{K: rapid.SampledFrom([]string{"trunc", "flip", "set32", "insert", "drop"}).Draw(t, "op"), Off: rapid.IntRange(0, 4096).Draw(t, "off"), Val: rapid.Uint32().Draw(t, "val")})
		}
		ev.Get("C12").Case()
		if v, _ := runC12(c); v != nil {
			v.Replayer = "C12"
			v.Case = c
			if msg := ev.Report(v); msg != "" {
				t.Fatal(msg)
			}
		}
	}))
}

var _ = json.Marshal
