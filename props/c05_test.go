package props

import (
	"encoding/json"
	"fmt"
	"testing"

	"pgregory.net/rapid"

	"verif/ev"
	"verif/sim"
)

// C05 — liveness after stabilisation, as a step bound in virtual time (see sim/liveness.go).
func TestC05(t *testing.T) {
	col := ev.Get("C05")
	o := simOpts{Focus: "C05", MaxN: 7, MaxHeight: 2, MaxSteps: 60, ByzBias: 75}
	rapid.Check(t, func(t *rapid.T) {
		// phase 1: adversarial prefix drawn against a live world (its trace becomes the case's prefix)
		cfg := drawConfig(t, o)
		cfg.Crashed = nil
		if rapid.IntRange(0, 5).Draw(t, "crash") == 0 {
			for i := 0; i < cfg.N; i++ {
				if !isInInts(cfg.Byz, i) {
					cfg.Crashed = []int{i}
					break
				}
			}
		}
		pw := sim.NewWorld(cfg)
		pw.Start()
		sw := drawSwarm(t, len(cfg.Byz) > 0 || cfg.Outsiders > 0)
		if rapid.Bool().Draw(t, "prefix-without-syncs") { // half of the prefixes contain node syncs (members that enter a height by sync, not by their own commit)
			sw.sync = 0
		} else if sw.sync == 0 {
			sw.sync = 1
		}
		for i := rapid.IntRange(0, o.MaxSteps).Draw(t, "steps"); i > 0 && pw.Viol == nil && !pw.AllDone(); i-- {
			pw.Apply(drawAction(t, pw, sw, o))
		}
		c := sim.LiveCase{Cfg: cfg, Prefix: pw.Trace}
		for i := 0; i < cfg.N; i++ {
			c.R = append(c.R, rapid.IntRange(1, 1000).Draw(t, "r"))
		}
		if len(cfg.Byz) > 0 {
			for k := rapid.IntRange(0, 3).Draw(t, "ninj"); k > 0; k-- {
				p := make([]int, 6)
				for i := range p {
					p[i] = rapid.IntRange(0, 9).Draw(t, "p")
				}
				strat := rapid.SampledFrom([]string{"nv", "nv", "pp", "prepare", "commit", "vc", "replay", "support"}).Draw(t, "strat")
				if strat == "nv" && rapid.Bool().Draw(t, "preset") {
					p = append([]int{}, rapid.SampledFrom(nvPresets).Draw(t, "presetv")...)
				}
				c.Inj = append(c.Inj, sim.StabInj{AtFiring: rapid.IntRange(0, 12).Draw(t, "at"), AsSel: rapid.IntRange(0, 9).Draw(t, "as"), Repeat: rapid.IntRange(0, 2).Draw(t, "repeat") == 0,
					Spec: sim.ByzSpec{Strat: strat, To: uint16(1<<uint(cfg.N) - 1), V: uint64(rapid.IntRange(0, 3).Draw(t, "dv")), P: p}})
			}
		}
		for x := range ev.ExcludedTriggers("C05") {
			c.Disabled = append(c.Disabled, x)
		}
		w, res := sim.RunLive(c)
		col.Case()
		if res.Discarded != "" {
			col.Class("discarded:" + res.Discarded)
			if len(res.Discarded) > 9 && res.Discarded[:9] == "excluded:" {
				col.Exclude(res.Discarded[9:])
			}
			return
		}
		col.Class("judged")
		if res.NoTimer > 0 {
			col.Class("decider-without-armed-timer")
		}
		col.Class(fmt.Sprintf("firings=%d", minInt(res.Firings, 12)))
		col.Class(fmt.Sprintf("view-spread=%d", minU(res.Vmax-res.Vmin, 6)))
		col.MaxExtra("max_firings_observed", int64(res.Firings))
		if res.Bound > 0 {
			col.MaxExtra("max_firings_percent_of_bound", int64(100*res.Firings/res.Bound))
		}
		if res.Committed {
			if res.LeaderInD {
				col.Class("committed-in-correct-led-view")
			} else {
				col.Class("committed-in-byzantine-led-view")
			}
		}
		if res.NonTrivial {
			b, _ := json.Marshal(c)
			col.NonTrivial(string(b))
			col.Class("nontrivial")
		}
		col.Sample(func() interface{} {
			return map[string]interface{}{"cfg": c.Cfg, "prefix_len": len(c.Prefix), "r": c.R, "inj": c.Inj, "deciders": res.D, "views": []uint64{res.Vmin, res.Vmax}, "bound": res.Bound, "firings": res.Firings}
		})
		if w.Viol != nil {
			w.Viol.Replayer = "LIVE"
			w.Viol.Case = c
			if msg := ev.Report(w.Viol); msg != "" {
				t.Fatal(msg)
			}
		}
	})
}

func minInt(a, b int) int {
	if a < b {
		return a
	}
	return b
}

func init() {
	replayers["LIVE"] = func(raw json.RawMessage) *ev.Violation {
		var c sim.LiveCase
		if err := json.Unmarshal(raw, &c); err != nil {
			return &ev.Violation{Property: "C05", Kind: "bad-replay-file", Detail: err.Error()}
		}
		w, _ := sim.RunLive(c)
		if w.Viol != nil {
			w.Viol.Replayer = "LIVE"
			w.Viol.Case = c
		}
		return w.Viol
	}
}
