package props

import (
	"encoding/json"
	"fmt"
	"testing"

	"pgregory.net/rapid"

	"verif/ev"
	"verif/sim"
)

// C05 — liveness after stabilisation, as a step bound in virtual time (see sim/liveness.go).
func TestC05(t *testing.T) {
	col := ev.Get("C05")
	o := simOpts{Focus: "C05", MaxN: 7, MaxHeight: 2, MaxSteps: 60, ByzBias: 75}
	rapid.Check(t, func(t *rapid.T) {
		// phase 1: adversarial prefix drawn against a live world (its trace becomes the case's prefix)
		cfg := drawConfig(t, o)
		cfg.Crashed = nil
		if rapid.IntRange(0, 5).Draw(t, "crash") == 0 {
			for i := 0; i < cfg.N; i++ {
				if !isInInts(cfg.Byz, i) {
					cfg.Crashed = []int{i}
					break
				}
			}
		}
		pw := sim.NewWorld(cfg)
		pw.Start()
		sw := drawSwarm(t, len(cfg.Byz) > 0 || cfg.Outsiders > 0)
		if rapid.Bool().Draw(t, "prefix-without-syncs") { // half of the prefixes contain node syncs (members that enter a height by sync, not by their own commit)
			sw.sync = 0
		} else if sw.sync == 0 {
			sw.sync = 1
		}
		for i := rapid.IntRange(0, o.MaxSteps).Draw(t, "steps"); i > 0 && pw.Viol == nil && !pw.AllDone(); i-- {
			pw.Apply(drawAction(t, pw, sw, o))
		}
		c := sim.LiveCase{Cfg: cfg, Prefix: pw.Trace}
		for i := 0; i < cfg.N; i++ {
			c.R = append(c.R, rapid.IntRange(1, 1000).Draw(t, "r"))
		}
		if len(cfg.Byz) > 0 {
			for k := rapid.IntRange(0, 3).Draw(t, "ninj"); k > 0; k-- {
				p := make([]int, 6)
				for i := range p {
					p[i] = rapid.IntRange(0, 9).Draw(t, "p")
				}
				strat := rapid.SampledFrom([]string{"nv", "nv", "pp", "prepare", "commit", "vc", "replay", "support"}).Draw(t, "strat")
				if strat == "nv" && rapid.Bool().Draw(t, "preset") {
					p = append([]int{}, rapid.SampledFrom(nvPresets).Draw(t, "presetv")...)
				}
				c.Inj = append(c.Inj, sim.StabInj{AtFiring: rapid.IntRange(0, 12).Draw(t, "at"), AsSel: rapid.IntRange(0, 9).Draw(t, "as"), Repeat: rapid.IntRange(0, 2).Draw(t, "repeat") == 0,
					Spec: sim.ByzSpec{Strat: strat, To: uint16(1<<uint(cfg.N) - 1), V: uint64(rapid.IntRange(0, 3).Draw(t, "dv")), P: p}})
			}
		}
		// the order of the timely suffix is free (all messages before any timer): some reordering, messages of one kind to one
		// member delivered last, Byzantine members that help only some members the moment a correct leader proposes
		var correct []int
		for i := 0; i < cfg.N; i++ {
			if !isInInts(cfg.Byz, i) {
				correct = append(correct, i)
			}
		}
		switch rapid.IntRange(0, 3).Draw(t, "suffix-order") {
		case 1:
			c.Order = rapid.SliceOfN(rapid.SampledFrom([]int{0, 0, 0, 1, 1, 2, 3, 5}), 1, 40).Draw(t, "order")
		case 2, 3:
			for k := rapid.IntRange(1, 2).Draw(t, "ndefer"); k > 0; k-- {
				r := sim.HoldRule{Types: uint8(1 << uint(rapid.SampledFrom([]int{sim.UP, sim.UP, sim.UC, sim.UPP, sim.UNV, sim.UVC}).Draw(t, "defer-kind"))), To: 0xffff, From: 0xffff}
				if rapid.IntRange(0, 3).Draw(t, "defer-to-one") > 0 {
					r.To = 1 << uint(rapid.SampledFrom(correct).Draw(t, "defer-to"))
				}
				if rapid.IntRange(0, 3).Draw(t, "defer-from-one") == 0 {
					r.From = 1 << uint(rapid.SampledFrom(correct).Draw(t, "defer-from"))
				}
				c.Defer = append(c.Defer, r)
			}
			if rapid.Bool().Draw(t, "order-too") {
				c.Order = rapid.SliceOfN(rapid.SampledFrom([]int{0, 0, 0, 1, 2}), 1, 20).Draw(t, "order")
			}
		}
		if len(cfg.Byz) > 0 && rapid.IntRange(0, 2).Draw(t, "react") == 0 {
			c.React = &sim.Reactive{CommitsOnly: rapid.Bool().Draw(t, "react-commits-only"), To: uint16(1<<uint(cfg.N) - 1)}
			if rapid.IntRange(0, 3).Draw(t, "react-to-one") > 0 {
				c.React.To = 1 << uint(rapid.SampledFrom(correct).Draw(t, "react-to"))
				if len(c.Defer) > 0 && rapid.Bool().Draw(t, "react-to-deferred") {
					c.React.To = c.Defer[0].To
				}
			}
		}
		for x := range ev.ExcludedTriggers("C05") {
			c.Disabled = append(c.Disabled, x)
		}
		w, res := sim.RunLive(c)
		col.Case()
		if res.Discarded != "" {
			col.Class("discarded:" + res.Discarded)
			if len(res.Discarded) > 9 && res.Discarded[:9] == "excluded:" {
				col.Exclude(res.Discarded[9:])
			}
			return
		}
		col.Class("judged")
		if res.NoTimer > 0 {
			col.Class("decider-without-armed-timer")
		}
		if res.Reordered > 0 || len(c.Defer) > 0 {
			col.Class("suffix-reordered")
		}
		if res.JoinedByQuorum {
			col.Class("second-clause-judged")
		}
		if res.Reacted > 0 {
			col.Class("suffix-selective-byzantine-help")
		}
		col.Class(fmt.Sprintf("firings=%d", minInt(res.Firings, 12)))
		col.Class(fmt.Sprintf("view-spread=%d", minU(res.Vmax-res.Vmin, 6)))
		col.MaxExtra("max_firings_observed", int64(res.Firings))
		if res.Bound > 0 {
			col.MaxExtra("max_firings_percent_of_bound", int64(100*res.Firings/res.Bound))
		}
		if res.Committed {
			if res.LeaderInD {
				col.Class("committed-in-correct-led-view")
			} else {
				col.Class("committed-in-byzantine-led-view")
			}
		}
		if res.NonTrivial {
			b, _ := json.Marshal(c)
			col.NonTrivial(string(b))
			col.Class("nontrivial")
		}
		col.Sample(func() interface{} {
			return map[string]interface{}{"cfg": c.Cfg, "prefix_len": len(c.Prefix), "r": c.R, "inj": c.Inj, "deciders": res.D, "views": []uint64{res.Vmin, res.Vmax}, "bound": res.Bound, "firings": res.Firings}
		})
		if w.Viol != nil {
			w.Viol.Replayer = "LIVE"
			w.Viol.Case = c
			if msg := ev.Report(w.Viol); msg != "" {
				t.Fatal(msg)
			}
		}
	})
}

func minInt(a, b int) int {
	if a < b {
		return a
	}
	return b
}

func init() {
	replayers["LIVE"] = func(raw json.RawMessage) *ev.Violation {
		var c sim.LiveCase
		if err := json.Unmarshal(raw, &c); err != nil {
			return &ev.Violation{Property: "C05", Kind: "bad-replay-file", Detail: err.Error()}
		}
		w, _ := sim.RunLive(c)
		if w.Viol != nil {
			w.Viol.Replayer = "LIVE"
			w.Viol.Case = c
		}
		return w.Viol
	}
}
