package props

import (
	"encoding/json"
	"fmt"
	"strings"
	"testing"
	"time"

	"pgregory.net/rapid"

	"verif/ev"
	"verif/rt"
	"verif/sim"
)

// ---------------------------------------------------------------- engine R: generated op sequences on the real runtime

type rOpts struct {
	Focus     string
	MaxOps    int
	Kinds     []string // op kinds to draw from
	RealTimer bool
}

func drawRCase(t *rapid.T, o rOpts) rt.Case {
	n := rapid.IntRange(4, 6).Draw(t, "n")
	c := rt.Case{Cfg: rt.Config{N: n, Me: rapid.IntRange(0, n-1).Draw(t, "me"), Rot: rapid.IntRange(0, n-1).Draw(t, "rot")}}
	if rapid.IntRange(0, 4).Draw(t, "failcommit") == 0 {
		c.Cfg.FailCommitAt = []uint64{uint64(rapid.IntRange(1, 3).Draw(t, "failat"))}
	}
	switch rapid.IntRange(0, 11).Draw(t, "committeefail") {
	case 0:
		c.Cfg.CommitteeFailFirst = 1
	case 1:
		if o.Focus == "C16" || o.Focus == "C15" {
			c.Cfg.CommitteeFailFirst = 1 << 30 // the committee source stays unavailable (and honours its context)
			c.Cfg.CommitteePlainErr = rapid.Bool().Draw(t, "committee-plain-err")
		}
	}
	c.Cfg.CommitHonoursCtx = rapid.Bool().Draw(t, "commit-honours-ctx")
	c.Cfg.SyncCtxPerCall = rapid.Bool().Draw(t, "sync-ctx-per-call")
	if n >= 5 && rapid.IntRange(0, 5).Draw(t, "absent?") == 0 {
		c.Cfg.AbsentAt = uint64(rapid.IntRange(1, 3).Draw(t, "absent-at")) // membership change: the node sits out one height
	}
	if o.RealTimer {
		c.Cfg.RealTimer = true
		c.Cfg.BaseMs = rapid.IntRange(2, 12).Draw(t, "basems")
	}
	for i := rapid.IntRange(2, o.MaxOps).Draw(t, "nops"); i > 0; i-- {
		k := rapid.SampledFrom(o.Kinds).Draw(t, "op")
		switch k {
		case "round":
			c.Ops = append(c.Ops, rt.Op{K: k, Order: rapid.SampledFrom([]string{"prc", "prc", "prc", "pcr", "cpr", "crp", "prcd", "pcrd", "rcp"}).Draw(t, "order")})
		case "flood":
			c.Ops = append(c.Ops, rt.Op{K: "flood", N: rapid.SampledFrom([]int{50, 1100}).Draw(t, "flood")})
		case "release", "settle", "cancel", "callcancelled", "elect":
			c.Ops = append(c.Ops, rt.Op{K: k})
		case "plan":
			c.Ops = append(c.Ops, rt.Op{K: "plan", Kind: rapid.SampledFrom([]string{"propose", "validate", "validate", "commit", "commit", "committee"}).Draw(t, "spi"),
				Policy: rapid.SampledFrom([]string{"hold", "ctx", "ctx", "slow"}).Draw(t, "policy")})
		case "trigger": // what the node's own timer can produce: a trigger for its current position, or a stale one (never a future one)
			c.Ops = append(c.Ops, rt.Op{K: "trigger", DH: rapid.SampledFrom([]int{0, 0, 0, 0, -1}).Draw(t, "dh"), DV: rapid.SampledFrom([]int{0, 0, 0, -1, -2, -99, -99}).Draw(t, "dv")})
		case "sync":
			c.Ops = append(c.Ops, rt.Op{K: "sync", DH: rapid.SampledFrom([]int{-2, -1, 0, 0, 1, 1, 2, 3}).Draw(t, "dh")})
		case "oldsync": // settle, sync below the current height (DH=0: the block just below it), settle: must change nothing
			c.Ops = append(c.Ops, rt.Op{K: "settle"}, rt.Op{K: "sync", DH: rapid.SampledFrom([]int{0, 0, -1, -2, -3}).Draw(t, "dh")}, rt.Op{K: "settle"}, rt.Op{K: "sleep", N: 0})
		case "syncbig":
			c.Ops = append(c.Ops, rt.Op{K: "syncbig", N: rapid.IntRange(0, 4).Draw(t, "gap")})
		case "burst":
			c.Ops = append(c.Ops, rt.Op{K: "burst", DH: rapid.SampledFrom([]int{-1, 0, 1, 2}).Draw(t, "dh"), N: rapid.IntRange(2, 6).Draw(t, "n")})
		case "sleep":
			c.Ops = append(c.Ops, rt.Op{K: "sleep", N: rapid.SampledFrom([]int{0, 50, 200, 1000, 3000}).Draw(t, "us")})
		}
	}
	return c
}

type rViolation struct{ kind, detail string }

func histViol(prop string, c rt.Case, v *rViolation, r *rt.Run) *ev.Violation {
	return &ev.Violation{Property: prop, Kind: v.kind, Detail: v.detail + "\nhistory:\n" + r.String(), Replayer: "RT:" + prop, Case: c}
}

// ---- C13: heights and views only move forward

func checkC13(r *rt.Run) *rViolation {
	h := r.H
	for i := 1; i < len(h.Commits); i++ {
		if h.Commits[i].H <= h.Commits[i-1].H {
			return &rViolation{"commit-height-not-increasing", fmt.Sprintf("commit callback for height %d after height %d", h.Commits[i].H, h.Commits[i-1].H)}
		}
	}
	for i := 1; i < len(h.Rounds); i++ {
		if h.Rounds[i].H <= h.Rounds[i-1].H {
			return &rViolation{"round-height-not-increasing", fmt.Sprintf("new-round callback for height %d after height %d", h.Rounds[i].H, h.Rounds[i-1].H)}
		}
	}
	for i := 1; i < len(h.HVSamples); i++ {
		a, b := h.HVSamples[i-1], h.HVSamples[i]
		if b[0] < a[0] || (b[0] == a[0] && b[1] < a[1]) {
			return &rViolation{"height-view-went-back", fmt.Sprintf("observable (h,v) went from (%d,%d) to (%d,%d)", a[0], a[1], b[0], b[1])}
		}
	}
	// a commit callback for h is only followed by rounds above h
	var lastCommit uint64
	seenCommit := false
	for _, e := range h.Events {
		switch e.Kind {
		case "commit":
			lastCommit, seenCommit = e.H, true
		case "round":
			if seenCommit && e.H <= lastCommit {
				return &rViolation{"round-not-above-committed-height", fmt.Sprintf("round for height %d after the commit callback for height %d", e.H, lastCommit)}
			}
		}
	}
	if h.Sch != nil {
		for i := 1; i < len(h.Sch.Log); i++ {
			p, q := h.Sch.Log[i-1], h.Sch.Log[i]
			if q.H < p.H || (q.H == p.H && q.V < p.V) {
				return &rViolation{"registration-went-back", fmt.Sprintf("election registered for (%d,%d) after (%d,%d)", q.H, q.V, p.H, p.V)}
			}
			if q.H > p.H && q.V != 0 {
				return &rViolation{"view-not-reset-on-new-height", fmt.Sprintf("first election registration of height %d has view %d", q.H, q.V)}
			}
		}
	}
	return nil
}

// ---- C14: node sync

func checkC14(r *rt.Run) *rViolation {
	h := r.H
	for i, rec := range r.Records {
		if rec.Op.K == "flood" && !rec.Returned {
			return &rViolation{"main-loop-blocked", fmt.Sprintf("HandleConsensusMessage stopped being accepted after a burst of %d messages: the main loop is blocked (blocked gates at that time: %v)", rec.Op.N, rec.BlockedAtStart)}
		}
		if rec.Op.K != "sync" && rec.Op.K != "burst" && rec.Op.K != "syncbig" {
			continue
		}
		if !rec.Returned {
			return &rViolation{"updatestate-blocked", fmt.Sprintf("UpdateState(h=%d) did not return within 8s while the loops were running", rec.AbsH)}
		}
		top := rec.AbsH
		if rec.Op.K == "burst" && rec.AbsV > top {
			top = rec.AbsV
		}
		if rec.Err == "" && top >= rec.H0 && r.FinalSettled {
			if r.FinalH <= top {
				return &rViolation{"sync-did-not-take-effect", fmt.Sprintf("UpdateState(block %d) returned nil while the node was deciding height %d, but at quiescence the node is at height %d", top, rec.H0, r.FinalH)}
			}
		}
		// settle, old sync, settle: nothing may change
		if rec.Op.K == "sync" && i > 0 && i+1 < len(r.Records) && r.Records[i-1].Op.K == "settle" && r.Records[i-1].Settled && r.Records[i+1].Op.K == "settle" && r.Records[i+1].Settled && rec.AbsH < rec.H0 && len(rec.BlockedAtStart) == 0 {
			after := r.Records[i+1]
			// counts at the start of the next op after the closing settle = counts after it
			var sent, commits, rounds int
			if i+2 < len(r.Records) {
				n := r.Records[i+2]
				sent, commits, rounds = n.SentBefore, n.CommitsBefore, n.RoundsBefore
			} else {
				sent, commits, rounds = r.AfterCancel.Sent, r.AfterCancel.Commits, r.AfterCancel.Rounds
			}
			if sent != rec.SentBefore || commits != rec.CommitsBefore || rounds != rec.RoundsBefore || after.H0 != rec.H0 || after.V0 != rec.V0 {
				return &rViolation{"stale-sync-had-effect", fmt.Sprintf("UpdateState(block %d) below the current height %d changed something (sends %d->%d commits %d->%d rounds %d->%d hv (%d,%d)->(%d,%d))",
					rec.AbsH, rec.H0, rec.SentBefore, sent, rec.CommitsBefore, commits, rec.RoundsBefore, rounds, rec.H0, rec.V0, after.H0, after.V0)}
			}
		}
	}
	// rounds not preceded by the node's own successful commit of the previous height come from sync: never first leader above height 1
	committed := map[uint64]bool{}
	failed := map[uint64]bool{}
	for _, x := range r.Case.Cfg.FailCommitAt {
		failed[x] = true
	}
	for _, e := range h.Events {
		switch e.Kind {
		case "commit":
			if !failed[e.H] && !e.B { // e.B: the callback reported a failure (configured, or its context was cancelled under it)
				committed[e.H] = true
			}
		case "round":
			bySync := !committed[e.H-1]
			if bySync && e.H > 1 && e.B {
				return &rViolation{"sync-round-can-be-first-leader", fmt.Sprintf("round %d entered by sync has canBeFirstLeader=true", e.H)}
			}
			if !bySync && !e.B {
				return &rViolation{"commit-round-cannot-be-first-leader", fmt.Sprintf("round %d entered by the node's own commit has canBeFirstLeader=false", e.H)}
			}
			if bySync && e.H > 1 {
				for _, s := range h.Events {
					if s.Kind == "send" && s.Info == "PP" && s.H == e.H && s.V == 0 {
						return &rViolation{"first-leader-after-sync", fmt.Sprintf("node sent a view-0 PREPREPARE for height %d, a round it entered by sync", e.H)}
					}
				}
			}
		}
	}
	return nil
}

// ---- C15 (b): blocking SPI calls are released exactly when their (height, view) is over

func ctxPos(e rt.GateEntry) (uint64, uint64) {
	if e.Kind == "committee" || e.Kind == "commit" {
		return e.H, ^uint64(0) // term-level context
	}
	return e.H, e.V
}

func older(h1, v1, h2, v2 uint64) bool { return h1 < h2 || (h1 == h2 && v1 < v2) }

func checkC15(r *rt.Run) *rViolation {
	h := r.H
	entries := h.Gates.Snapshot()
	proposeIdx := 0
	for _, e := range entries {
		if e.Kind == "propose" {
			proposeIdx++
		}
		if e.Released == "" {
			return &rViolation{"spi-never-released", fmt.Sprintf("%s call for height %d was still blocked after shutdown", e.Kind, e.H)}
		}
		if e.Released != "ctx" || !e.PosExact {
			continue
		}
		eh, evw := ctxPos(e)
		cause := ""
		for _, rec := range r.Records {
			if rec.At.After(e.Left) {
				break
			}
			switch rec.Op.K {
			case "trigger":
				if rec.Forwarded && rec.AbsV < ^uint64(0) && older(eh, evw, rec.AbsH, rec.AbsV+1) {
					cause = "trigger"
				}
			case "sync":
				if rec.Returned && eh <= rec.AbsH {
					cause = "sync"
				}
			case "burst":
				if rec.Returned && (eh <= rec.AbsH || eh <= rec.AbsV) {
					cause = "sync"
				}
			case "cancel":
				cause = "shutdown"
			}
		}
		if cause == "" && r.Cancelled && !e.Left.Before(cancelTime(r)) {
			cause = "shutdown"
		}
		if cause == "" && h.Cfg.RealTimer {
			cause = "real-timer" // the real trigger may have fired by itself; not judged
		}
		if cause == "" {
			return &rViolation{"ctx-cancelled-without-cause", fmt.Sprintf("the context of the %s call for (h=%d,v=%d) was cancelled although no election trigger / sync / shutdown about that or a later position had been issued", e.Kind, e.H, e.V)}
		}
		// a block returned by a cancelled RequestNewBlockProposal must not be broadcast
		if e.Kind == "propose" && proposeIdx-1 < len(h.BU.Proposals) {
			id := h.BU.Proposals[proposeIdx-1].BlockID
			for _, raw := range h.Sent {
				if b := raw.Block; b != nil {
					if bb, ok := b.(interface{ String() string }); ok && strings.Contains(bb.String(), "B("+id+" ") {
						return &rViolation{"cancelled-proposal-broadcast", fmt.Sprintf("block %s, returned by RequestNewBlockProposal under a cancelled context, was broadcast", id)}
					}
				}
			}
		}
	}
	// after a leave-event and a successful settle, an affected call may not still be blocked
	for i, rec := range r.Records {
		if rec.Op.K != "settle" || !rec.Settled || i == 0 {
			continue
		}
		for _, b := range rec.BlockedAtStart {
			_ = b
		}
		// entries blocked when the NEXT op starts are those that survived this settle
		if i+1 >= len(r.Records) {
			continue
		}
		for _, b := range r.Records[i+1].BlockedAtStart {
			if !b.PosExact {
				continue
			}
			bh, bv := ctxPos(b)
			for _, prev := range r.Records[:i] {
				left := false
				switch prev.Op.K {
				case "trigger":
					left = prev.Forwarded && older(bh, bv, prev.AbsH, prev.AbsV+1) && prev.AbsH == bh
				case "sync":
					left = prev.Returned && prev.Err == "" && bh <= prev.AbsH
				}
				if left && stillSameEntry(entries, b, prev.At) {
					return &rViolation{"spi-not-released", fmt.Sprintf("the %s call for (h=%d,v=%d) is still blocked at quiescence although a %s for (%d,%d) was processed", b.Kind, b.H, b.V, prev.Op.K, prev.AbsH, prev.AbsV)}
				}
			}
		}
	}
	return nil
}

// stillSameEntry: some entry matching b was entered before t and not left (or left much later) - i.e. the event came while it was blocked.
func stillSameEntry(entries []rt.GateEntry, b rt.GateEntry, t time.Time) bool {
	for _, e := range entries {
		if e.Kind == b.Kind && e.H == b.H && e.V == b.V && e.Entered.Before(t) && (e.Released == "" || e.Left.After(t.Add(50*time.Millisecond))) {
			return true
		}
	}
	return false
}

func cancelTime(r *rt.Run) time.Time {
	for _, rec := range r.Records {
		if rec.Op.K == "cancel" {
			return rec.At
		}
	}
	if n := len(r.Records); n > 0 {
		return r.Records[n-1].At
	}
	return time.Time{}
}

// ---- C19 (runtime part): a trigger for the node's current position is acted upon (the node leaves that view), whatever the
// two loops were doing when it arrived. Judged for the LAST trigger op of a run when it named the position the node was at:
// positions only move forward, so if the node is still there at final quiescence the trigger was lost or ignored.

func checkC19R(r *rt.Run) *rViolation {
	if !r.FinalSettled || r.H.Sch == nil {
		return nil
	}
	if r.FinalBlocked > 0 {
		// the worker still sits in a consumer call that only waits on its (term-level) context, e.g. a commit callback: an election
		// does not cancel that context, so the trigger is pending behind the consumer, not lost. Not judged.
		return nil
	}
	last := -1
	for i, rec := range r.Records {
		if rec.Op.K == "trigger" {
			last = i
		}
	}
	if last < 0 {
		return nil
	}
	rec := r.Records[last]
	if !rec.Forwarded || rec.AbsH != rec.H0 || rec.AbsV != rec.V0 {
		return nil
	}
	if r.FinalH == rec.AbsH && r.FinalV == rec.AbsV {
		return &rViolation{"current-trigger-had-no-effect", fmt.Sprintf("the election trigger for (h=%d,v=%d), the node's position when it was delivered to the main loop (gates closed then: %v), was never acted upon: the node is still at (h=%d,v=%d) at final quiescence", rec.AbsH, rec.AbsV, rec.BlockedAtStart, r.FinalH, r.FinalV)}
	}
	return nil
}

// ---- C19 (runtime part, REAL timer): a view that is left by its election timeout lasted at least that timeout, whatever the
// worker was doing when earlier timers fired (e.g. the trigger of the previous height expiring inside a slow commit callback and
// being picked up only after the next height armed its own timer). Sound bound: a state lasted at most
// (first time the next state was seen) - (last time the previous state was seen); sampling delay can only enlarge it.

func checkC19RT(r *rt.Run) *rViolation {
	h := r.H
	if !h.Cfg.RealTimer {
		return nil
	}
	for _, rec := range r.Records {
		if rec.Op.K == "elect" || rec.Op.K == "trigger" {
			return nil // views may legitimately be left early by votes / harness-made triggers: not judged
		}
	}
	base := time.Duration(h.Cfg.BaseMs) * time.Millisecond
	for i := 1; i+1 < len(h.HVSamples) && i+1 < len(h.HVTimes); i++ {
		a, b := h.HVSamples[i], h.HVSamples[i+1]
		if a[0] != b[0] || b[1] != a[1]+1 || a[1] > 8 {
			continue
		}
		want := base << a[1]
		if atMost := h.HVTimes[i+1].FirstSeen.Sub(h.HVTimes[i].PrevLastSeen); atMost < want-300*time.Microsecond {
			return &rViolation{"view-left-before-timeout", fmt.Sprintf("(h=%d,v=%d) was left by election after at most %v, less than its timeout %v (base %v)", a[0], a[1], atMost, want, base)}
		}
	}
	return nil
}

// ---- C16: shutdown is complete

func checkC16(r *rt.Run) *rViolation {
	if !r.ShutdownOK {
		return &rViolation{"shutdown-does-not-complete", fmt.Sprintf("WaitUntilShutdown did not return within 50s (bound: 10s; later returns are counted as inconclusive) after the run context was cancelled (blocked gates: %d)", len(r.H.Gates.Blocked()))}
	}
	if r.Final.Commits != r.AfterCancel.Commits || r.Final.Rounds != r.AfterCancel.Rounds {
		return &rViolation{"callback-after-shutdown", fmt.Sprintf("callbacks after WaitUntilShutdown returned: commits %d->%d rounds %d->%d", r.AfterCancel.Commits, r.Final.Commits, r.AfterCancel.Rounds, r.Final.Rounds)}
	}
	if r.Final.Sent != r.AfterCancel.Sent {
		return &rViolation{"send-after-shutdown", fmt.Sprintf("messages sent after WaitUntilShutdown returned: %d->%d", r.AfterCancel.Sent, r.Final.Sent)}
	}
	if len(r.EndGoroutines) > len(r.StartGoroutines) {
		return &rViolation{"goroutine-leak", fmt.Sprintf("library goroutines left after shutdown: %v", r.EndGoroutines)}
	}
	if r.TimerArmedAtEnd != "" {
		return &rViolation{"election-timer-armed-after-shutdown", "after WaitUntilShutdown returned the election trigger is still registered for " + r.TimerArmedAtEnd}
	}
	for _, rec := range r.Records {
		if rec.Op.K == "callcancelled" && !rec.Returned {
			return &rViolation{"api-call-with-cancelled-ctx-blocks", "HandleConsensusMessage / UpdateState / ValidateBlockConsensus with a cancelled context did not return within 5s"}
		}
	}
	return nil
}

// ---- C12 (runtime layer): hostile input, then the node keeps committing and no loop panicked

func checkC12R(r *rt.Run) *rViolation {
	if p := r.H.LogBuf.Panics(); len(p) > 0 {
		return &rViolation{"recovered-panic-in-loop", "a supervised loop panicked and was restarted: " + p[0]}
	}
	sawRaw := false
	for _, rec := range r.Records {
		// a burst of well-formed messages is input too: afterwards the node must still take messages, elections and UpdateState
		if rec.Op.K == "flood" && !rec.Returned {
			return &rViolation{"node-stops-taking-messages", fmt.Sprintf("HandleConsensusMessage stopped being accepted during a burst of %d well-formed messages (blocked gates: %v)", rec.Op.N, rec.BlockedAtStart)}
		}
		if (rec.Op.K == "sync" || rec.Op.K == "burst") && !rec.Returned {
			return &rViolation{"updatestate-blocked-after-input", fmt.Sprintf("UpdateState(h=%d) did not return after earlier input", rec.AbsH)}
		}
		if rec.Op.K == "sync" && rec.Err == "" && rec.AbsH >= rec.H0 && r.FinalSettled && r.FinalH <= rec.AbsH {
			return &rViolation{"node-ignores-updatestate-after-input", fmt.Sprintf("after earlier input UpdateState(block %d) had no effect: node at height %d at quiescence", rec.AbsH, r.FinalH)}
		}
		if rec.Op.K == "raw" {
			sawRaw = true
			if !rec.Returned {
				return &rViolation{"handle-consensus-message-blocked", "HandleConsensusMessage did not return"}
			}
		}
		if rec.Op.K == "round" && sawRaw && rec.Settled && len(rec.BlockedAtStart) == 0 {
			// the round after hostile input must commit (quiescent without commit = wedged)
			committedNow := false
			for _, c := range r.H.Commits {
				if c.H == rec.H0 {
					committedNow = true
				}
			}
			if !committedNow && r.H.LeaderIdx(rec.H0, rec.V0) != r.H.Cfg.Me && rec.V0 == 0 {
				return &rViolation{"node-wedged-after-input", fmt.Sprintf("after hostile input the node at (h=%d,v=%d) reached quiescence without committing a complete valid round", rec.H0, rec.V0)}
			}
		}
	}
	return nil
}

func rProperty(t *testing.T, o rOpts, check func(*rt.Run) *rViolation, nontrivial func(*rt.Run) bool, mutate func(*rapid.T, *rt.Case)) {
	col := ev.Get(o.Focus)
	rapid.Check(t, func(t *rapid.T) {
		c := drawRCase(t, o)
		if mutate != nil {
			mutate(t, &c)
		}
		r := rt.Execute(c)
		col.Case()
		if r.Inconclusive > 0 {
			col.Inconcl()
			col.Class("R:inconclusive-op")
		}
		for _, rec := range r.Records {
			col.Class("R:op:" + rec.Op.K)
			if len(rec.BlockedAtStart) > 0 {
				col.Class("R:op-while-gate-closed:" + rec.Op.K)
			}
		}
		col.Class(fmt.Sprintf("R:commits=%d", minInt(len(r.H.Commits), 5)))
		if nontrivial(r) {
			b, _ := json.Marshal(c)
			col.NonTrivial(string(b))
			col.Class("nontrivial")
		}
		col.Sample(func() interface{} { return c })
		if v := check(r); v != nil {
			if msg := ev.Report(histViol(o.Focus, c, v, r)); msg != "" {
				t.Fatal(msg)
			}
		}
	})
}

func gateOverlap(r *rt.Run, kinds ...string) bool {
	for _, rec := range r.Records {
		if len(rec.BlockedAtStart) == 0 {
			continue
		}
		for _, k := range kinds {
			if rec.Op.K == k {
				return true
			}
		}
	}
	return false
}

func TestC13R(t *testing.T) {
	o := rOpts{Focus: "C13", MaxOps: 14, Kinds: []string{"round", "round", "round", "round", "plan", "trigger", "trigger", "sync", "sync", "burst", "release", "settle", "sleep", "flood", "elect", "syncbig"}}
	rProperty(t, o, checkC13, func(r *rt.Run) bool {
		return gateOverlap(r, "sync", "burst", "trigger") || len(r.Case.Cfg.FailCommitAt) > 0
	}, nil)
}

func TestC14R(t *testing.T) {
	o := rOpts{Focus: "C14", MaxOps: 14, Kinds: []string{"round", "round", "plan", "plan", "sync", "sync", "sync", "burst", "burst", "oldsync", "release", "settle", "sleep", "trigger", "flood", "syncbig"}}
	rProperty(t, o, checkC14, func(r *rt.Run) bool {
		if gateOverlap(r, "sync", "burst") {
			return true
		}
		for _, rec := range r.Records {
			if rec.Op.K == "burst" {
				return true
			}
		}
		return false
	}, nil)
}

func TestC15R(t *testing.T) {
	o := rOpts{Focus: "C15", MaxOps: 14, Kinds: []string{"round", "round", "plan", "plan", "plan", "trigger", "trigger", "trigger", "sync", "sync", "release", "settle", "settle", "sleep", "flood", "elect", "elect"}}
	rProperty(t, o, checkC15, func(r *rt.Run) bool {
		for _, e := range r.H.Gates.Snapshot() {
			if e.Policy != "pass" {
				return true
			}
		}
		return false
	}, nil)
}

func TestC16R(t *testing.T) {
	o := rOpts{Focus: "C16", MaxOps: 12, Kinds: []string{"round", "round", "plan", "plan", "trigger", "sync", "release", "sleep", "cancel", "callcancelled", "elect", "flood"}}
	rProperty(t, o, checkC16, func(r *rt.Run) bool { return len(r.H.Gates.Snapshot()) > 0 && gateWasClosedAtCancel(r) }, func(t *rapid.T, c *rt.Case) {
		if rapid.Bool().Draw(t, "realtimer") {
			c.Cfg.RealTimer = true
			c.Cfg.BaseMs = rapid.IntRange(2, 12).Draw(t, "basems")
		}
		c.Ops = append(c.Ops, rt.Op{K: "cancel"}, rt.Op{K: "callcancelled"})
	})
}

// C19, runtime part (fake scheduler: the harness plays the timer goroutine). Half of the cases follow a template in which two
// triggers arrive during ONE worker step: the first while the worker sits in the commit callback of height h (it stays parked in
// the hand-over slot), the second - for the new position (h+1,0) - while the same step sits in an SPI call of the next term.
func TestC19R(t *testing.T) {
	o := rOpts{Focus: "C19", MaxOps: 10, Kinds: []string{"round", "round", "plan", "plan", "trigger", "trigger", "trigger", "release", "settle", "sleep", "elect", "sync"}}
	rProperty(t, o, checkC19R, func(r *rt.Run) bool { return gateOverlap(r, "trigger") }, func(t *rapid.T, c *rt.Case) {
		c.Cfg.CommitteeFailFirst = 0
		if rapid.Bool().Draw(t, "template") {
			k := rapid.IntRange(0, 2).Draw(t, "rounds-before")
			second := rapid.SampledFrom([]string{"propose", "propose", "committee"}).Draw(t, "second-gate")
			if second == "propose" { // the node must lead view 0 of the height after the gated commit: height k+2
				c.Cfg.Me = ((k + 1) * c.Cfg.Rot) % c.Cfg.N
			}
			c.Cfg.FailCommitAt = nil
			var ops []rt.Op
			for i := 0; i < k; i++ {
				ops = append(ops, rt.Op{K: "round", Order: "prc"})
			}
			ops = append(ops, rt.Op{K: "plan", Kind: "commit", Policy: "hold"}, rt.Op{K: "round", Order: "prc"}, rt.Op{K: "settle"})
			if rapid.IntRange(0, 3).Draw(t, "first-trigger") > 0 {
				ops = append(ops, rt.Op{K: "trigger", DV: rapid.SampledFrom([]int{0, 0, -1}).Draw(t, "dv1")})
			}
			ops = append(ops, rt.Op{K: "plan", Kind: second, Policy: rapid.SampledFrom([]string{"hold", "hold", "ctx"}).Draw(t, "second-policy")}, rt.Op{K: "release"}, rt.Op{K: "settle"})
			ops = append(ops, rt.Op{K: "trigger"})
			if rapid.Bool().Draw(t, "release-after") {
				ops = append(ops, rt.Op{K: "release"})
			}
			ops = append(ops, rt.Op{K: "settle"})
			c.Ops = ops
		} else if rapid.Bool().Draw(t, "template2") {
			// a sync for a block the node already has sits in the hand-over slot behind a busy worker when the trigger of the current
			// position arrives (the worker will ignore that sync - the trigger must not get lost with it)
			k := rapid.IntRange(1, 2).Draw(t, "rounds-before2")
			gate := rapid.SampledFrom([]string{"propose", "validate", "commit"}).Draw(t, "busy-in")
			if gate == "propose" {
				c.Cfg.Me = (k * c.Cfg.Rot) % c.Cfg.N // leader of view 0 of height k+1
			}
			c.Cfg.FailCommitAt, c.Cfg.AbsentAt = nil, 0
			var ops []rt.Op
			for i := 0; i < k; i++ {
				ops = append(ops, rt.Op{K: "round", Order: "prc"})
			}
			ops = append(ops, rt.Op{K: "plan", Kind: gate, Policy: "hold"})
			if gate != "propose" {
				ops = append(ops, rt.Op{K: "round", Order: "prc"})
			}
			ops = append(ops, rt.Op{K: "settle"}, rt.Op{K: "sync", DH: rapid.SampledFrom([]int{0, 0, -1}).Draw(t, "stale-dh")}, rt.Op{K: "trigger"}, rt.Op{K: "release"}, rt.Op{K: "settle"})
			c.Ops = ops
		}
	})
}

// C19, runtime part on the REAL TimerBasedElectionTrigger: rounds with commit callbacks that outlast the election timeout of
// their height, so that an old trigger is in flight when the next height arms its timer.
func TestC19RT(t *testing.T) {
	o := rOpts{Focus: "C19", MaxOps: 6, Kinds: []string{"round", "sleep"}, RealTimer: true}
	rProperty(t, o, checkC19RT, func(r *rt.Run) bool { return len(r.H.Commits) > 0 }, func(t *rapid.T, c *rt.Case) {
		c.Cfg.CommitteeFailFirst, c.Cfg.FailCommitAt, c.Cfg.AbsentAt = 0, nil, 0
		c.Cfg.BaseMs = rapid.IntRange(3, 8).Draw(t, "basems")
		var ops []rt.Op
		for k := rapid.IntRange(1, 3).Draw(t, "slow-rounds"); k > 0; k-- {
			// the commit callback of this round is held for longer than the view-0 timeout: the (h,0) trigger expires inside it
			ops = append(ops, rt.Op{K: "plan", Kind: "commit", Policy: "hold"}, rt.Op{K: "round", Order: "prc"},
				rt.Op{K: "sleep", N: 1000*c.Cfg.BaseMs + rapid.IntRange(200, 3000).Draw(t, "over")}, rt.Op{K: "release"},
				rt.Op{K: "sleep", N: rapid.SampledFrom([]int{300, 1000, 1000 * c.Cfg.BaseMs / 2}).Draw(t, "after")})
		}
		ops = append(ops, rt.Op{K: "sleep", N: 1000 * c.Cfg.BaseMs * 3})
		c.Ops = ops
	})
}

func gateWasClosedAtCancel(r *rt.Run) bool {
	for _, rec := range r.Records {
		if rec.Op.K == "cancel" && len(rec.BlockedAtStart) > 0 {
			return true
		}
	}
	return false
}

// hostile inputs for the runtime layer of C12: raw bytes derived from valid serialised messages
func TestC12R(t *testing.T) {
	o := rOpts{Focus: "C12", MaxOps: 9, Kinds: []string{"round", "round", "raw", "raw", "raw", "settle", "trigger", "plan", "flood", "flood", "sync"}}
	rProperty(t, o, checkC12R, func(r *rt.Run) bool {
		for _, rec := range r.Records {
			if rec.Op.K == "raw" {
				return true
			}
		}
		return false
	}, func(t *rapid.T, c *rt.Case) {
		// fill in the content of the raw ops: derived from a valid PREPARE / VIEW_CHANGE / NEW_VIEW-shaped spec with byte surgery
		for i := range c.Ops {
			if c.Ops[i].K != "raw" {
				continue
			}
			base := c12BaseContent(t, c.Cfg)
			var ops []byteOp
			for k := rapid.IntRange(0, 3).Draw(t, "nbyteops"); k > 0; k-- {
				ops = append(ops, byteOp{K: rapid.SampledFrom([]string{"trunc", "flip", "set32", "set32", "insert", "drop"}).Draw(t, "bop"), Off: rapid.IntRange(0, 4096).Draw(t, "off"),
					Val: rapid.SampledFrom([]uint32{0, 1, 3, 4, 0x7fffffff, 0x80000000, 0xffffffff, 0xfffffffc, 17, 255}).Draw(t, "val")})
			}
			c.Ops[i].Raw = applyByteOps(base, ops)
		}
		c.Ops = append(c.Ops, rt.Op{K: "round"}, rt.Op{K: "settle"})
	})
}

// c12BaseContent: serialised content of a structurally valid message with (possibly extreme) field values, built without any node.
func c12BaseContent(t *rapid.T, cfg rt.Config) []byte {
	bigs := []uint64{0, 1, 2, 1 << 31, 1 << 32, 1<<63 - 1, 1 << 63, ^uint64(0)}
	hgt := rapid.SampledFrom([]uint64{1, 1, 1, 2, 3, 1 << 63, ^uint64(0)}).Draw(t, "bh")
	vw := rapid.SampledFrom(bigs).Draw(t, "bv")
	id := rapid.SampledFrom([][]byte{sim.MemberName(0), sim.MemberName(1), sim.MemberName(cfg.Me), nil, []byte("x")}).Draw(t, "bid")
	ref_ := sim.RefSpec{Type: uint16(rapid.IntRange(0, 6).Draw(t, "bt")), Inst: uint64(sim.Instance), H: hgt, V: vw, Hash: rapid.SliceOfN(rapid.Byte(), 0, 40).Draw(t, "bhash")}
	sig := sim.SigSpec{ID: id, Sig: rapid.SliceOfN(rapid.Byte(), 0, 40).Draw(t, "bsig")}
	switch rapid.IntRange(0, 4).Draw(t, "bkind") {
	case 0:
		return (&sim.MsgSpec{Union: sim.UPP, Ref: ref_, Sender: sig}).Build().Content
	case 1:
		return (&sim.MsgSpec{Union: sim.UP, Ref: ref_, Sender: sig}).Build().Content
	case 2:
		return (&sim.MsgSpec{Union: sim.UC, Ref: ref_, Sender: sig, Share: []byte("s")}).Build().Content
	case 3:
		v := sim.VoteSpec{Type: sim.TVC, Inst: uint64(sim.Instance), H: hgt, V: vw, Sender: sig}
		if rapid.Bool().Draw(t, "bproof") {
			v.Proof = &sim.ProofSpec{PP: ref_, PPSender: sig, P: ref_}
		}
		return (&sim.MsgSpec{Union: sim.UVC, Vote: &v}).Build().Content
	default:
		v := sim.VoteSpec{Type: sim.TVC, Inst: uint64(sim.Instance), H: hgt, V: vw, Sender: sig}
		var votes []sim.VoteSpec
		for k := rapid.IntRange(0, 3).Draw(t, "bnvotes"); k > 0; k-- {
			votes = append(votes, v)
		}
		return (&sim.MsgSpec{Union: sim.UNV, NVType: sim.TNV, NVInst: uint64(sim.Instance), NVH: hgt, NVV: vw, Votes: votes, Sender: sig, PPRef: &ref_, PPSend: &sig}).Build().Content
	}
}

func init() {
	mk := func(prop string, check func(*rt.Run) *rViolation) {
		replayers["RT:"+prop] = func(raw json.RawMessage) *ev.Violation {
			var c rt.Case
			if err := json.Unmarshal(raw, &c); err != nil {
				return &ev.Violation{Property: prop, Kind: "bad-replay-file", Detail: err.Error()}
			}
			r := rt.Execute(c)
			if v := check(r); v != nil {
				return histViol(prop, c, v, r)
			}
			return nil
		}
	}
	mk("C13", checkC13)
	mk("C14", checkC14)
	mk("C15", checkC15)
	mk("C16", checkC16)
	mk("C12", checkC12R)
	mk("C19", func(r *rt.Run) *rViolation {
		if v := checkC19R(r); v != nil {
			return v
		}
		return checkC19RT(r)
	})
}
