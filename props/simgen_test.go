package props

import (
	"encoding/json"
	"fmt"
	"hash/fnv"
	"testing"

	"pgregory.net/rapid"

	"verif/ev"
	"verif/sim"
)

// ---------------------------------------------------------------- generators for engine S

type simOpts struct {
	Focus      string
	MaxN       int
	MaxHeight  uint64
	MaxSteps   int
	ByzBias    int // percent of cases with a Byzantine set (biased to maximal weight)
	Strategies []string
}

func drawConfig(t *rapid.T, o simOpts) sim.Config {
	if ev.Thorough() { // the thorough tier also explores larger committees, more heights and longer traces
		o.MaxN, o.MaxHeight = 10, 4
	}
	n := rapid.IntRange(4, o.MaxN).Draw(t, "n")
	wclass := rapid.IntRange(0, 6).Draw(t, "wclass")
	ws := make([]uint64, n)
	for i := range ws {
		switch wclass {
		case 0:
			ws[i] = 1
		case 1:
			ws[i] = uint64(rapid.IntRange(1, 5).Draw(t, "w"))
		case 2: // one heavy member
			ws[i] = 1
			if i == 0 {
				ws[i] = uint64(rapid.IntRange(2, n).Draw(t, "heavy"))
			}
		case 3:
			ws[i] = uint64(rapid.IntRange(1, 3).Draw(t, "w"))
		case 6: // some members carry no weight at all (they still take their turn as leader; their votes add nothing)
			ws[i] = uint64(rapid.IntRange(0, 3).Draw(t, "w"))
			if i == n-1 {
				tot := uint64(0)
				for _, x := range ws {
					tot += x
				}
				if tot == 0 {
					ws[i] = 1
				}
			}
		case 5: // stake-sized weights: totals far above 2^53, where any arithmetic through float64 goes wrong (total < 2^64 for n <= 10)
			ws[i] = uint64(rapid.IntRange(1, 4).Draw(t, "w"))<<58 + uint64(rapid.IntRange(0, 3).Draw(t, "wlow"))
		default:
			ws[i] = uint64(rapid.IntRange(1, 100).Draw(t, "w"))
		}
	}
	order := rapid.Permutation(seq(n)).Draw(t, "order")
	cfg := sim.Config{N: n, Weights: ws, Order: order, Rot: rapid.IntRange(0, n-1).Draw(t, "rot"), MaxHeight: uint64(rapid.IntRange(1, int(o.MaxHeight)).Draw(t, "maxh")), Focus: o.Focus}
	if rapid.IntRange(0, 2).Draw(t, "wrot?") == 0 {
		cfg.WRot = rapid.IntRange(1, n-1).Draw(t, "wrot")
	}
	// membership change: one identity is not in the committee of one height (it moves on by sync only, and re-joins afterwards)
	absentOneIn := 5
	if o.Focus == "C17" {
		absentOneIn = 1 // every second case
	}
	if n >= 5 && o.Focus != "C05" && rapid.IntRange(0, absentOneIn).Draw(t, "absent?") == 0 {
		cfg.Absent = []int{rapid.IntRange(0, n-1).Draw(t, "absent")}
		if n >= 6 && rapid.Bool().Draw(t, "absent2?") { // two members swapped out: the committees of neighbouring heights differ in more than the node itself
			if x := rapid.IntRange(0, n-1).Draw(t, "absent2"); x != cfg.Absent[0] {
				cfg.Absent = append(cfg.Absent, x)
			}
		}
		cfg.AbsentH = uint64(rapid.IntRange(1, int(cfg.MaxHeight)).Draw(t, "absenth"))
	}
	// Byzantine subset of weight <= f (at every height), biased to maximal: greedy over a drawn order
	if rapid.IntRange(0, 99).Draw(t, "byz?") < o.ByzBias {
		cand := rapid.Permutation(seq(n)).Draw(t, "byzorder")
		for _, i := range cand {
			try := append(append([]int{}, cfg.Byz...), i)
			c2 := cfg
			c2.Byz = try
			if c2.ByzWeightOK() {
				cfg.Byz = try
				if rapid.IntRange(0, 3).Draw(t, "stopbyz") == 0 {
					break
				}
			}
		}
		cfg.Outsiders = rapid.IntRange(0, 2).Draw(t, "outsiders")
	}
	if rapid.IntRange(0, 7).Draw(t, "failcommit?") == 0 {
		cfg.FailCommit = []int{rapid.IntRange(0, n-1).Draw(t, "failnode")}
		cfg.FailCommitH = uint64(rapid.IntRange(1, int(cfg.MaxHeight)).Draw(t, "failh"))
	}
	// an election (or a sync) handled by the main loop while the worker of one node sits in a consumer call
	intOneIn := 6
	if o.Focus == "C15" || o.Focus == "C17" {
		intOneIn = 1
	}
	if o.Focus != "C05" && rapid.IntRange(0, intOneIn).Draw(t, "interrupt?") == 0 {
		kinds, events := []string{"validate", "validate", "propose", "commit"}, []string{"trigger", "trigger", "trigger", "sync"}
		if o.Focus == "C17" { // the height hand-over is what matters there: syncs that land while the node commits
			kinds, events = []string{"commit", "commit", "validate", "propose"}, []string{"sync", "sync", "trigger"}
		}
		cfg.Interrupt = &sim.Interrupt{Node: rapid.IntRange(0, n-1).Draw(t, "int-node"), Kind: rapid.SampledFrom(kinds).Draw(t, "int-kind"),
			Nth: rapid.IntRange(1, 3).Draw(t, "int-nth"), Event: rapid.SampledFrom(events).Draw(t, "int-event"), GiveUp: rapid.Bool().Draw(t, "int-giveup"), Delay: rapid.SampledFrom([]int{0, 0, 1, 2, 4}).Draw(t, "int-delay")}
	}
	// (not for C05: a failing transport loses messages, which the timely suffix of that property excludes)
	if o.Focus != "C05" && rapid.IntRange(0, 7).Draw(t, "sendfail?") == 0 { // a transport that fails half way through a broadcast and says so
		cfg.SendFail = []int{rapid.IntRange(0, n-1).Draw(t, "sendfail-node")}
		cfg.SendFailU = rapid.SampledFrom([]int{0, 0, 1 + sim.UNV, 1 + sim.UNV, 1 + sim.UPP, 1 + sim.UC, 1 + sim.UVC}).Draw(t, "sendfail-kind")
		cfg.SendFailNth = rapid.SampledFrom([]int{0, 1, 1, 2}).Draw(t, "sendfail-nth")
	}
	if rapid.IntRange(0, 9).Draw(t, "crash?") == 0 {
		// crash one correct node only if the remaining correct weight still has a chance (not required for safety properties)
		for i := 0; i < n; i++ {
			if !isInInts(cfg.Byz, i) {
				cfg.Crashed = []int{i}
				break
			}
		}
	}
	return cfg
}

func seq(n int) []int {
	s := make([]int, n)
	for i := range s {
		s[i] = i
	}
	return s
}

func isInInts(xs []int, x int) bool {
	for _, y := range xs {
		if y == x {
			return true
		}
	}
	return false
}

type swarm struct {
	deliver, run, drop, dup, timeout, timeouts, hold, release, byz, sync int
}

func drawSwarm(t *rapid.T, byzOn bool) swarm {
	w := func(name string, opts ...int) int { return rapid.SampledFrom(opts).Draw(t, "sw-"+name) }
	s := swarm{
		deliver:  w("deliver", 1, 3, 6),
		run:      w("run", 0, 2, 5),
		drop:     w("drop", 0, 0, 1, 2),
		dup:      w("dup", 0, 0, 1),
		timeout:  w("timeout", 0, 0, 1, 2),
		timeouts: w("timeouts", 0, 1, 1, 2),
		hold:     w("hold", 0, 1, 2),
		release:  w("release", 0, 1),
		sync:     w("sync", 0, 0, 1),
	}
	if byzOn {
		s.byz = w("byz", 1, 3, 6)
	}
	return s
}

func pickKind(t *rapid.T, s swarm) string {
	kinds := []string{"deliver", "run", "drop", "dup", "timeout", "timeouts", "hold", "release", "byz", "sync"}
	ws := []int{s.deliver, s.run, s.drop, s.dup, s.timeout, s.timeouts, s.hold, s.release, s.byz, s.sync}
	tot := 0
	for _, x := range ws {
		tot += x
	}
	r := rapid.IntRange(0, tot-1).Draw(t, "kind")
	for i, x := range ws {
		if r < x {
			return kinds[i]
		}
		r -= x
	}
	return "deliver"
}

// drawAction draws one applicable action against the live world.
func drawAction(t *rapid.T, w *sim.World, s swarm, o simOpts) sim.Action {
	kind := pickKind(t, s)
	live := w.CorrectLive()
	ids := w.Deliverable()
	switch kind {
	case "deliver", "drop", "dup":
		if len(ids) == 0 {
			return sim.Action{K: "timeout", Node: rapid.SampledFrom(live).Draw(t, "node")}
		}
		// bias towards the oldest messages so that runs make progress
		var id int
		if rapid.Bool().Draw(t, "fifo") {
			id = ids[0]
		} else {
			id = rapid.SampledFrom(ids).Draw(t, "msg")
		}
		return sim.Action{K: kind, ID: id}
	case "run":
		return sim.Action{K: "run", N: rapid.SampledFrom([]int{1, 2, 3, 5, 8, 13, 30, 100}).Draw(t, "k")}
	case "timeout":
		return sim.Action{K: "timeout", Node: rapid.SampledFrom(live).Draw(t, "node"), D: rapid.SampledFrom([]int{0, 0, 0, 1, 2, 4}).Draw(t, "split")}
	case "timeouts":
		if rapid.IntRange(0, 3).Draw(t, "coordinated") > 0 {
			return sim.Action{K: "timeouts", Mask: laggardMask(w)}
		}
		return sim.Action{K: "timeouts", Mask: uint16(rapid.IntRange(1, 1<<uint(w.Cfg.N)-1).Draw(t, "mask"))}
	case "hold":
		h := sim.HoldRule{
			Types: uint8(rapid.SampledFrom([]int{1 << sim.UC, 1 << sim.UP, 1<<sim.UP | 1<<sim.UC, 1 << sim.UPP, 1 << sim.UNV, 1 << sim.UVC, 31}).Draw(t, "htypes")),
			To:    uint16(rapid.IntRange(1, 1<<uint(w.Cfg.N)-1).Draw(t, "hto")),
			From:  0xffff,
		}
		if rapid.IntRange(0, 3).Draw(t, "hfrom?") == 0 {
			h.From = uint16(rapid.IntRange(1, 1<<uint(w.Cfg.N)-1).Draw(t, "hfrom"))
		}
		return sim.Action{K: "hold", Hold: &h}
	case "release":
		return sim.Action{K: "release"}
	case "sync":
		// a block some correct node committed
		var srcs []int
		for _, i := range live {
			if len(w.Nodes[i].Commits) > 0 {
				srcs = append(srcs, i)
			}
		}
		if len(srcs) == 0 {
			return sim.Action{K: "run", N: 3}
		}
		if rapid.Bool().Draw(t, "catchup") { // a block-sync service brings the nodes in the mask that are behind up to date
			return sim.Action{K: "catchup", Mask: uint16(rapid.IntRange(1, 1<<uint(w.Cfg.N)-1).Draw(t, "mask"))}
		}
		src := rapid.SampledFrom(srcs).Draw(t, "src")
		c := rapid.SampledFrom(w.Nodes[src].Commits).Draw(t, "commit")
		return sim.Action{K: "sync", Node: rapid.SampledFrom(live).Draw(t, "node"), N: src, H: c.H, D: rapid.SampledFrom([]int{0, 0, 0, 1, 2, 4}).Draw(t, "split")}
	case "byz":
		if spec := drawByz(t, w, o); spec != nil {
			return sim.Action{K: "byz", Byz: spec, N: rapid.SampledFrom([]int{0, 0, 5, 20, 60}).Draw(t, "then-run")}
		}
		return sim.Action{K: "run", N: 2}
	}
	return sim.Action{K: "run", N: 1}
}

// applyLossProfiles: for every live correct member a drawn set of message kinds (none / COMMIT / PREPARE+COMMIT / PREPARE / all)
// is held from now on; the caller later drops what was held (lost for good) and releases the rules.
func applyLossProfiles(t *rapid.T, w *sim.World) {
	for _, i := range w.CorrectLive() {
		lost := rapid.SampledFrom([]int{0, 0, 1 << sim.UC, 1<<sim.UP | 1<<sim.UC, 1 << sim.UP, 31}).Draw(t, "lost")
		if lost != 0 {
			w.Apply(sim.Action{K: "hold", Hold: &sim.HoldRule{Types: uint8(lost), To: 1 << uint(i), From: 0xffff}})
		}
	}
}

// assistedViewChanges: rounds of "the members at the lowest position time out; the Byzantine members vote for that view too
// (plain or with the best proof they can assemble), or lead it with a preset NEW_VIEW; the network runs; the Byzantine members
// follow the correct leader's proposal like correct members would" - view changes that actually complete with Byzantine help.
func assistedViewChanges(t *rapid.T, w *sim.World, as int, rounds int) {
	full := uint16(1<<uint(w.Cfg.N) - 1)
	for r := 0; r < rounds && w.Viol == nil && !w.AllDone(); r++ {
		mask := laggardMask(w)
		if mask == 0 {
			return
		}
		var h, v uint64
		for _, i := range w.CorrectLive() {
			if mask>>uint(i)&1 == 1 {
				h, v = w.Nodes[i].H(), w.Nodes[i].V()+1
			}
		}
		w.Apply(sim.Action{K: "timeouts", Mask: mask})
		if nl := w.LeaderIdx(h, v); w.IsByz(nl) {
			preset := rapid.SampledFrom(nvPresets).Draw(t, "avc-preset")
			w.Apply(sim.Action{K: "byz", N: 60, Byz: &sim.ByzSpec{Strat: "nv", As: nl, To: full, H: h, V: v, P: append([]int{}, preset...), Tailor: rapid.IntRange(0, 2).Draw(t, "avc-tailor") == 0}})
			w.Apply(sim.Action{K: "byz", N: 100, Byz: &sim.ByzSpec{Strat: "support", As: nl, To: full, H: h, V: v, P: []int{0, 0}}})
			continue
		}
		if rapid.IntRange(0, 3).Draw(t, "avc-votes") > 0 {
			w.Apply(sim.Action{K: "byz", Byz: &sim.ByzSpec{Strat: "votes", As: as, To: full, H: h, V: v, P: []int{rapid.IntRange(0, 2).Draw(t, "avc-proof"), rapid.IntRange(0, 3).Draw(t, "avc-vote-block")}}})
		}
		w.Apply(sim.Action{K: "run", N: 100})
		if rapid.IntRange(0, 3).Draw(t, "avc-follow") > 0 {
			w.Apply(sim.Action{K: "byz", N: 100, Byz: &sim.ByzSpec{Strat: "follow", As: as, To: full, H: h, V: v, P: []int{0, rapid.IntRange(0, 1).Draw(t, "avc-commits-only")}}})
		}
	}
}

// traceSig abstracts a run into its distinctness signature: config class + sequence of (action kind, strategy).
func traceSig(w *sim.World) uint64 {
	h := fnv.New64a()
	fmt.Fprintf(h, "%d|%v|%v|%d|", w.Cfg.N, w.Cfg.Weights, w.Cfg.Byz, w.Cfg.Rot)
	for _, a := range w.Trace {
		h.Write([]byte(a.K))
		if a.Byz != nil {
			h.Write([]byte(a.Byz.Strat))
			fmt.Fprintf(h, "%d.%d.%v", a.Byz.V, a.Byz.To, a.Byz.P)
		}
		fmt.Fprintf(h, "%d.%d.%d;", a.ID, a.Node, a.N)
	}
	return h.Sum64()
}

type simSample struct {
	Cfg     sim.Config   `json:"cfg"`
	Steps   int          `json:"steps"`
	Commits int          `json:"commits"`
	MaxView uint64       `json:"max_view"`
	Head    []sim.Action `json:"first_actions"`
}

func sampleOf(w *sim.World) interface{} {
	head := w.Trace
	if len(head) > 12 {
		head = head[:12]
	}
	return simSample{Cfg: w.Cfg, Steps: w.Steps, Commits: w.Obs.Commits, MaxView: w.Obs.MaxView, Head: head}
}

// runSimCase: one generated execution of engine S under the given options. Returns the world (with Viol set on violation).
func runSimCase(t *rapid.T, o simOpts) *sim.World { return runSimCaseWith(t, o, nil) }

func runSimCaseWith(t *rapid.T, o simOpts, setup func(*sim.World)) *sim.World {
	cfg := drawConfig(t, o)
	w := sim.NewWorld(cfg)
	if setup != nil {
		setup(w)
	}
	for x := range ev.ExcludedTriggers(o.Focus) {
		w.Adv.Disabled[x] = true
	}
	if o.Focus == "ALL" {
		for i := 1; i <= 20; i++ {
			for x := range ev.ExcludedTriggers(fmt.Sprintf("C%02d", i)) {
				w.Adv.Disabled[x] = true
			}
		}
	}
	w.Start()
	sw := drawSwarm(t, len(cfg.Byz) > 0 || cfg.Outsiders > 0)
	if o.Focus == "C14" && sw.sync < 2 {
		sw.sync = 2 // sync-heavy runs: any committed block to any node, so most of them are stale
	}
	// scenario template: a Byzantine leader of view 0 proposes an honest-looking block, the correct members' PREPAREs (and
	// COMMITs) never reach each other but the adversary sees them, the correct members time out until a Byzantine member leads
	// again, and that leader sends a NEW_VIEW from the preset catalogue, backed by Byzantine PREPAREs/COMMITs.
	// Everything is applied as primitive actions, so the trace replays and shrinks like any other.
	usedTemplate := false
	if l := w.LeaderIdx(1, 0); w.IsByz(l) && rapid.IntRange(0, 9).Draw(t, "equivocate?") < 2 {
		// equivocation template: the Byzantine leader of view 0 proposes A to some members and B to the others, the
		// Byzantine members back one of the two (or both) with PREPAREs and COMMITs sent to everybody, the network runs.
		usedTemplate = true
		full := uint16(1<<uint(cfg.N) - 1)
		m := uint16(rapid.IntRange(1, int(full)).Draw(t, "eq-mask"))
		if rapid.IntRange(0, 3).Draw(t, "eq-same-hash") == 0 {
			// same signed header for everybody, but the second group gets ANOTHER block attached to it (only a consumer validation that
			// is really carried out notices)
			w.Apply(sim.Action{K: "byz", Byz: &sim.ByzSpec{Strat: "pp", As: l, To: m, H: 1, V: 0, P: []int{1, 0}}})
			w.Apply(sim.Action{K: "byz", Byz: &sim.ByzSpec{Strat: "pp", As: l, To: full &^ m, H: 1, V: 0, P: []int{0, 1}}})
		} else {
			w.Apply(sim.Action{K: "byz", Byz: &sim.ByzSpec{Strat: "pp", As: l, To: m, H: 1, V: 0, P: []int{0, 0}}})
			w.Apply(sim.Action{K: "byz", Byz: &sim.ByzSpec{Strat: "pp", As: l, To: full &^ m, H: 1, V: 0, P: []int{1, 0}}})
		}
		if rapid.Bool().Draw(t, "eq-run-first") {
			w.Apply(sim.Action{K: "run", N: rapid.SampledFrom([]int{3, 10, 40}).Draw(t, "eq-run")})
		}
		// partial progress: per member, some message classes are lost for good during this phase (one member sees everything and
		// may finish alone, another sees the PREPAREs but no COMMITs, a third nothing at all ...); afterwards assisted view changes
		lossy := rapid.IntRange(0, 2).Draw(t, "eq-lossy?") > 0
		if lossy {
			applyLossProfiles(t, w)
		}
		for k := rapid.IntRange(1, 2).Draw(t, "eq-supports"); k > 0; k-- {
			w.Apply(sim.Action{K: "byz", N: rapid.SampledFrom([]int{0, 20, 100}).Draw(t, "eq-then"), Byz: &sim.ByzSpec{Strat: "support", As: l,
				To: uint16(rapid.IntRange(1, int(full)).Draw(t, "eq-support-to")), H: 1, V: 0, P: []int{rapid.IntRange(0, 1).Draw(t, "eq-which"), rapid.IntRange(0, 1).Draw(t, "eq-commits-only")}}})
		}
		w.Apply(sim.Action{K: "run", N: 200})
		if rapid.IntRange(0, 2).Draw(t, "eq-lift") == 0 {
			// the correct members' genuine PREPARE / COMMIT signatures for one proposal, replayed under the hash of the other one
			w.Apply(sim.Action{K: "byz", N: 100, Byz: &sim.ByzSpec{Strat: "liftall", As: l, To: uint16(rapid.IntRange(1, int(full)).Draw(t, "eq-lift-to")), H: 1, V: 0, P: []int{rapid.IntRange(0, 1).Draw(t, "eq-lift-which")}}})
			w.Apply(sim.Action{K: "byz", N: 100, Byz: &sim.ByzSpec{Strat: "support", As: l, To: full, H: 1, V: 0, P: []int{rapid.IntRange(0, 1).Draw(t, "eq-lift-support"), 0}}})
		}
		if lossy {
			w.Apply(sim.Action{K: "dropheld"})
			w.Apply(sim.Action{K: "release"})
			assistedViewChanges(t, w, l, rapid.IntRange(1, 4).Draw(t, "eq-view-changes"))
		}
	} else if l := w.LeaderIdx(1, 0); w.IsByz(l) && rapid.IntRange(0, 9).Draw(t, "template?") < 4 {
		usedTemplate = true
		full := uint16(1<<uint(cfg.N) - 1)
		w.Apply(sim.Action{K: "byz", Byz: &sim.ByzSpec{Strat: "pp", As: l, To: full, H: 1, V: 0, P: []int{rapid.IntRange(0, 1).Draw(t, "tpl-block"), 0}}})
		held := rapid.SampledFrom([]int{1<<sim.UP | 1<<sim.UC, 1 << sim.UC, 1 << sim.UP}).Draw(t, "tpl-held")
		heldTo := full
		if rapid.Bool().Draw(t, "tpl-held-to-some") { // e.g. the COMMITs reach one member only, which commits alone
			heldTo = uint16(rapid.IntRange(1, int(full)).Draw(t, "tpl-held-to"))
		}
		w.Apply(sim.Action{K: "hold", Hold: &sim.HoldRule{Types: uint8(held), To: heldTo, From: 0xffff}})
		if rapid.Bool().Draw(t, "tpl-byz-prepares") {
			w.Apply(sim.Action{K: "byz", Byz: &sim.ByzSpec{Strat: "support", As: l, To: uint16(rapid.IntRange(1, int(full)).Draw(t, "tpl-support-to")), H: 1, V: 0, P: []int{0, 0}}})
		}
		w.Apply(sim.Action{K: "run", N: 60})
		w.Apply(sim.Action{K: "dropheld"})
		w.Apply(sim.Action{K: "release"})
		view := uint64(0)
		blockHonest := rapid.Bool().Draw(t, "tpl-block-honest-views") // nothing gets through while correct members lead
		for k := 0; k < cfg.N+1 && w.Viol == nil; k++ {
			w.Apply(sim.Action{K: "timeouts", Mask: laggardMask(w)})
			view++
			if nl := w.LeaderIdx(1, view); w.IsByz(nl) {
				preset := rapid.SampledFrom(nvPresets).Draw(t, "tpl-preset")
				w.Apply(sim.Action{K: "dropheld"})
				w.Apply(sim.Action{K: "release"})
				if preset[3] == 5 {
					some := uint16(rapid.IntRange(1, int(full)).Draw(t, "tpl-other-block-to"))
					good := append([]int{}, preset...)
					good[3] = 0
					w.Apply(sim.Action{K: "byz", Byz: &sim.ByzSpec{Strat: "nv", As: nl, To: some, H: 1, V: view, P: append([]int{}, preset...)}})
					w.Apply(sim.Action{K: "byz", N: 60, Byz: &sim.ByzSpec{Strat: "nv", As: nl, To: full &^ some, H: 1, V: view, P: good}})
				} else {
					w.Apply(sim.Action{K: "byz", N: 60, Byz: &sim.ByzSpec{Strat: "nv", As: nl, To: full, H: 1, V: view, P: append([]int{}, preset...), Tailor: rapid.IntRange(0, 2).Draw(t, "tpl-tailor") == 0}})
				}
				w.Apply(sim.Action{K: "byz", N: 100, Byz: &sim.ByzSpec{Strat: "support", As: nl, To: full, H: 1, V: view, P: []int{0, 0}}})
				break
			}
			if blockHonest {
				w.Apply(sim.Action{K: "hold", Hold: &sim.HoldRule{Types: 31, To: full, From: 0xffff}})
			}
			w.Apply(sim.Action{K: "run", N: 60}) // a correct leader's view: let it try, unless everything is held
		}
		w.Apply(sim.Action{K: "release"})
	}
	// laggard template for cases with a main-loop interrupt: the interrupted node is the last to get the COMMITs of height 1, so the
	// others are ahead of it when its own commit (validation, proposal) is interrupted - e.g. by a sync to the tip
	if it := cfg.Interrupt; !usedTemplate && it != nil && w.IsCorrect(it.Node) && rapid.IntRange(0, 2).Draw(t, "laggard?") == 0 {
		usedTemplate = true
		w.Apply(sim.Action{K: "hold", Hold: &sim.HoldRule{Types: uint8(rapid.SampledFrom([]int{1 << sim.UC, 31, 31, 1<<sim.UP | 1<<sim.UC}).Draw(t, "lag-types")), To: 1 << uint(it.Node), From: 0xffff}})
		w.Apply(sim.Action{K: "run", N: rapid.SampledFrom([]int{60, 200, 400}).Draw(t, "lag-run")})
		w.Apply(sim.Action{K: "release"})
		w.Apply(sim.Action{K: "run", N: rapid.SampledFrom([]int{20, 100}).Draw(t, "lag-run2")})
	}
	// lossy first phase with any leader, then assisted view changes (needs a Byzantine member to assist)
	if !usedTemplate && len(cfg.Byz) > 0 && rapid.IntRange(0, 9).Draw(t, "lossy-phase?") < 2 {
		usedTemplate = true
		applyLossProfiles(t, w)
		if rapid.Bool().Draw(t, "lp-follow") {
			w.Apply(sim.Action{K: "run", N: 30})
			w.Apply(sim.Action{K: "byz", Byz: &sim.ByzSpec{Strat: "follow", As: cfg.Byz[0], To: uint16(rapid.IntRange(1, 1<<uint(cfg.N)-1).Draw(t, "lp-follow-to")), H: 1, V: 0, P: []int{0, 0}}})
		}
		w.Apply(sim.Action{K: "run", N: 200})
		w.Apply(sim.Action{K: "dropheld"})
		w.Apply(sim.Action{K: "release"})
		assistedViewChanges(t, w, cfg.Byz[0], rapid.IntRange(1, 4).Draw(t, "lp-view-changes"))
	}
	// prelude: the classic attack shape "some message class is delayed to some nodes, the rest runs, some nodes time out"
	if !usedTemplate && rapid.IntRange(0, 9).Draw(t, "prelude?") < 6 {
		full := 1<<uint(cfg.N) - 1
		types := rapid.SampledFrom([]int{1 << sim.UC, 1 << sim.UC, 1<<sim.UP | 1<<sim.UC, 1 << sim.UP, 1 << sim.UPP}).Draw(t, "pre-types")
		w.Apply(sim.Action{K: "hold", Hold: &sim.HoldRule{Types: uint8(types), To: uint16(rapid.IntRange(1, full).Draw(t, "pre-to")), From: 0xffff}})
		w.Apply(sim.Action{K: "run", N: rapid.SampledFrom([]int{8, 20, 50, 200}).Draw(t, "pre-run")})
		if rapid.Bool().Draw(t, "pre-drop-held") {
			w.Apply(sim.Action{K: "dropheld"}) // the held messages are lost for good
		}
		if rapid.Bool().Draw(t, "pre-release") {
			w.Apply(sim.Action{K: "release"})
		}
		for r := rapid.IntRange(1, 2).Draw(t, "pre-rounds"); r > 0; r-- {
			w.Apply(sim.Action{K: "timeouts", Mask: uint16(rapid.IntRange(1, full).Draw(t, "pre-timeouts"))})
			if rapid.Bool().Draw(t, "pre-run2") {
				w.Apply(sim.Action{K: "run", N: rapid.SampledFrom([]int{5, 20, 100}).Draw(t, "pre-run2n")})
			}
		}
	}
	maxSteps := o.MaxSteps
	if ev.Thorough() {
		maxSteps *= 2
	}
	steps := rapid.IntRange(5, maxSteps).Draw(t, "steps")
	for i := 0; i < steps && w.Viol == nil && !w.AllDone(); i++ {
		w.Apply(drawAction(t, w, sw, o))
	}
	// epilogue (half of the cases): the network heals, so that whatever state the prefix left gets a chance to commit
	if rapid.Bool().Draw(t, "epilogue") {
		w.Apply(sim.Action{K: "release"})
		catchup := len(cfg.Absent) > 0 || rapid.IntRange(0, 3).Draw(t, "epilogue-catchup") == 0
		for r := 0; r < 4 && w.Viol == nil && !w.AllDone(); r++ {
			w.Apply(sim.Action{K: "run", N: 300})
			if w.AllDone() {
				break
			}
			if catchup {
				w.Apply(sim.Action{K: "catchup", Mask: 0xffff})
				w.Apply(sim.Action{K: "run", N: 300})
			}
			w.Apply(sim.Action{K: "timeouts", Mask: laggardMask(w)})
		}
	}
	w.Mon.AtEnd()
	return w
}

func recordSim(col *ev.Collector, w *sim.World) {
	col.Case()
	col.Class(fmt.Sprintf("n=%d", w.Cfg.N))
	col.Class(fmt.Sprintf("byz=%d", len(w.Cfg.Byz)))
	if len(w.Cfg.Absent) > 0 {
		col.Class("membership-changes-between-heights")
		if w.Obs.HeightsDone > w.Cfg.AbsentH {
			col.Class("absent-member-height-completed")
		}
	}
	if w.Obs.SplitEvents > 0 {
		col.Class("worker-picks-event-up-later-than-main-loop")
	}
	if w.Obs.Interrupts > 0 {
		col.Class("main-loop-event-during-consumer-call")
	}
	if w.Obs.SendFailures > 0 {
		col.Class("transport-failure-reported-to-library")
	}
	if w.Cfg.Weights[0] >= 1<<53 {
		col.Class("weights>2^53")
	}
	for _, x := range w.Cfg.Weights {
		if x == 0 {
			col.Class("zero-weight-member")
			break
		}
	}
	col.Class(fmt.Sprintf("maxview=%d", minU(w.Obs.MaxView, 6)))
	col.Class(fmt.Sprintf("heights-done=%d", w.Obs.HeightsDone))
	if w.Obs.ByzStored > 0 {
		col.Class("byz-message-stored")
	}
	if w.Obs.Panicked {
		col.Class("panicked")
	}
	for k, v := range w.Obs.Strategies {
		col.ClassN("strategy:"+k, int64(v))
	}
	for k, v := range w.Adv.Excluded {
		for i := 0; i < v; i++ {
			col.Exclude(k)
		}
	}
	col.MaxExtra("max_view_reached", int64(w.Obs.MaxView))
	col.Sample(func() interface{} { return sampleOf(w) })
}

func minU(a, b uint64) uint64 {
	if a < b {
		return a
	}
	return b
}

func reportSim(t interface{ Fatal(...interface{}) }, w *sim.World) {
	if w.Viol == nil {
		return
	}
	w.Viol.Case = sim.Case{Cfg: w.Cfg, Actions: w.Trace}
	if msg := ev.Report(w.Viol); msg != "" {
		t.Fatal(msg)
	}
}

func init() {
	replayers["SIM"] = func(raw json.RawMessage) *ev.Violation {
		var c sim.Case
		if err := json.Unmarshal(raw, &c); err != nil {
			return &ev.Violation{Property: "?", Kind: "bad-replay-file", Detail: err.Error()}
		}
		w := sim.RunCase(c.Cfg, c.Actions)
		return w.Viol
	}
}

var _ = testing.Short

// laggardMask: the live correct nodes that are at the lowest (height, view) - a coordinated round of timeouts.
func laggardMask(w *sim.World) uint16 {
	var minH, minV uint64 = 1 << 62, 1 << 62
	for _, i := range w.CorrectLive() {
		n := w.Nodes[i]
		if n.H() > w.Cfg.MaxHeight || !n.Sch.Active { // a node outside its height's committee has no election timer: it cannot time out
			continue
		}
		if n.H() < minH || (n.H() == minH && n.V() < minV) {
			minH, minV = n.H(), n.V()
		}
	}
	var m uint16
	for _, i := range w.CorrectLive() {
		n := w.Nodes[i]
		if n.H() == minH && n.V() == minV && n.Sch.Active {
			m |= 1 << uint(i)
		}
	}
	return m
}
