package props

import (
	"fmt"
	"testing"
	"time"

	"verif/rt"
)

func TestRTSmoke(t *testing.T) {
	for me := 0; me < 2; me++ {
		h := rt.New(rt.Config{N: 4, Me: me, Rot: 1})
		h.Start()
		if err, ok := h.UpdateState(nil, nil, nil); err != nil || !ok {
			t.Fatalf("UpdateState(genesis): %v %v", err, ok)
		}
		for height := uint64(1); height <= 3; height++ {
			r, _ := h.WaitFor(func() bool { hh, _ := h.HV(); return hh == height }, 5*time.Second, false)
			if r != rt.Happened {
				t.Fatalf("me=%d: did not reach height %d: %v", me, height, r)
			}
			// if the node leads view 0 it proposes by itself
			if h.LeaderIdx(height, 0) == me {
				r, _ := h.WaitFor(func() bool { return h.NSent() > 0 && len(h.BU.Proposals) >= 1 }, 5*time.Second, false)
				_ = r
				h.Settle(2 * time.Second)
			}
			h.PlayRound()
			r, raw := h.WaitFor(func() bool { return h.NCommits() >= int(height) }, 5*time.Second, false)
			if r != rt.Happened {
				t.Fatalf("me=%d: no commit at height %d: %v\n%s", me, height, r, raw)
			}
		}
		ok, took := h.Shutdown(5 * time.Second)
		fmt.Printf("me=%d commits=%d shutdown ok=%v in %v panics=%v leftovers=%d\n", me, h.NCommits(), ok, took, h.LogBuf.Panics(), len(rt.LibraryGoroutines()))
		time.Sleep(10 * time.Millisecond)
		for _, g := range rt.LibraryGoroutines() {
			fmt.Println("  left:", g)
		}
	}
}
