package props

import (
	"context"
	"encoding/json"
	"fmt"
	"strings"
	"testing"

	leanhelix "github.com/orbs-network/lean-helix-go"
	"github.com/orbs-network/lean-helix-go/services/interfaces"
	L "github.com/orbs-network/lean-helix-go/services/logger"
	"github.com/orbs-network/lean-helix-go/spec/types/go/primitives"
	"github.com/orbs-network/lean-helix-go/spec/types/go/protocol"
	"github.com/orbs-network/lean-helix-go/state"
	"pgregory.net/rapid"

	"verif/ev"
	"verif/fakes"
	"verif/ref"
	"verif/sim"
)

// C02 — ValidateBlockConsensus accepts only genuine commit quorums. Oracle: impl accepts => reference validator accepts; no panic.

type c02Signer struct {
	Idx  int    `json:"idx"`  // identity index (>= n: outsider)
	Mode string `json:"mode"` // ok | garbage | prepare-header | other-view | other-key
}

type c02Case struct {
	Weights     []uint64    `json:"weights"`
	Height      uint64      `json:"height"`
	Soft        bool        `json:"soft"`
	Signers     []c02Signer `json:"signers"`
	Type        uint16      `json:"type"` // header type tag
	Inst        uint64      `json:"inst"`
	RefH        uint64      `json:"ref_h"`
	View        uint64      `json:"view"`
	HashMode    string      `json:"hash_mode"` // ok | other | empty
	SeedMode    string      `json:"seed_mode"` // ok | empty | garbage | other-height | other-seed
	PrevMode    string      `json:"prev_mode"` // nil | genuine | wrong
	NilBlock    bool        `json:"nil_block"`
	ByteOps     []byteOp    `json:"byteops"`
	RawProof    []byte      `json:"raw_proof,omitempty"`    // if set, used verbatim
	BlockID     string      `json:"block_id,omitempty"`     // the block being validated (default "the-block"); another id = a fork block of the same height
	NoCommittee bool        `json:"no_committee,omitempty"` // the consumer's committee service fails for this call (context alive): nothing can be validated, so nothing may be accepted
}

type c02World struct {
	height uint64
	alt    []interfaces.CommitteeMember
	reg    *fakes.Registry
	ids    []primitives.MemberId
	com    []interfaces.CommitteeMember
	wl     *leanhelix.WorkerLoop
	mem    *fakes.Membership
	env    *ref.Env
	// signatures of the signers of the previous / the current proof built on this instance (signer mode "prev-proof")
	lastSigs, curSigs map[int][]byte
}

func newC02World(ws []uint64, height uint64) *c02World {
	w := &c02World{reg: fakes.NewRegistry()}
	for i := 0; i < len(ws)+2; i++ {
		id := sim.MemberName(i)
		if i >= len(ws) {
			id = sim.OutsiderName(i - len(ws))
		}
		w.ids = append(w.ids, id)
		w.reg.Add(id)
	}
	for i, x := range ws {
		w.com = append(w.com, interfaces.CommitteeMember{Id: w.ids[i], Weight: primitives.MemberWeight(x)})
	}
	// the committee depends on the height: at every other height the weights are reversed and member 0 is replaced by an
	// outsider, so that a validator that looks up the committee of the wrong height is caught
	w.height = height
	n := len(ws)
	for i := range ws {
		id := w.ids[i]
		if i == 0 {
			id = w.ids[n]
		}
		w.alt = append(w.alt, interfaces.CommitteeMember{Id: id, Weight: primitives.MemberWeight(ws[n-1-i])})
	}
	mem := &fakes.Membership{Me: w.ids[0], Committee: func(h primitives.BlockHeight) []interfaces.CommitteeMember {
		if uint64(h) == w.height {
			return w.com
		}
		return w.alt
	}}
	w.mem = mem
	cfg := &interfaces.Config{InstanceId: sim.Instance, Membership: mem, BlockUtils: fakes.NewBlockUtils("v"), KeyManager: &fakes.KeyManager{Reg: w.reg, Me: w.ids[0]},
		Communication: &fakes.Communication{Send: func([]primitives.MemberId, *interfaces.ConsensusRawMessage) {}}, OverrideElectionTrigger: fakes.NewSched()}
	st := state.NewState()
	w.wl = leanhelix.NewWorkerLoop(st, cfg, L.NewLhLogger(cfg, st), cfg.OverrideElectionTrigger, nil, nil)
	w.env = &ref.Env{Reg: w.reg, Instance: sim.Instance}
	return w
}

func commitmentOKc02(block interfaces.Block, hash primitives.BlockHash) bool {
	b := fakes.AsBlock(block)
	return b != nil && b.Hash().Equal(hash)
}

func runC02(c c02Case) (*ev.Violation, bool, bool) { return runC02In(nil, c, nil) }

// runC02In validates one case on the given validator instance (nil: a fresh one). With shared != nil the proof bytes are written
// into that buffer (a consumer that reuses its receive buffer), and signer mode "prev-proof" lifts the signature the same signer
// gave in the previous proof validated on this instance.
func runC02In(w *c02World, c c02Case, shared *[]byte) (*ev.Violation, bool, bool) {
	viol := func(kind, format string, a ...interface{}) *ev.Violation {
		return &ev.Violation{Property: "C02", Kind: kind, Detail: fmt.Sprintf(format, a...), Replayer: "C02", Case: c}
	}
	if w == nil {
		w = newC02World(c.Weights, c.Height)
	}
	bid := c.BlockID
	if bid == "" {
		bid = "the-block"
	}
	block := &fakes.Block{H: primitives.BlockHeight(c.Height), Ref: 7, ID: bid, Prev: "p", Valid: true}
	prevBlock := &fakes.Block{H: primitives.BlockHeight(c.Height - 1), Ref: 6, ID: "p", Valid: true}
	// previous proof
	var prevProof []byte
	genuinePrev := (&protocol.BlockProofBuilder{BlockRef: &protocol.BlockRefBuilder{MessageType: protocol.LEAN_HELIX_COMMIT, InstanceId: sim.Instance, BlockHeight: prevBlock.H},
		RandomSeedSignature: w.reg.MasterSeedSig(prevBlock.H, []byte("whatever"))}).Build().Raw()
	switch c.PrevMode {
	case "genuine":
		prevProof = genuinePrev
	case "wrong":
		prevProof = (&protocol.BlockProofBuilder{BlockRef: &protocol.BlockRefBuilder{MessageType: protocol.LEAN_HELIX_COMMIT, InstanceId: sim.Instance, BlockHeight: prevBlock.H},
			RandomSeedSignature: []byte("another-seed-signature")}).Build().Raw()
	}
	var proof []byte
	if c.RawProof != nil {
		proof = c.RawProof
	} else {
		hash := []byte(block.Hash())
		switch c.HashMode {
		case "other":
			hash = (&fakes.Block{H: block.H, ID: "other"}).Hash()
		case "empty":
			hash = nil
		}
		refB := &protocol.BlockRefBuilder{MessageType: protocol.MessageType(c.Type), InstanceId: primitives.InstanceId(c.Inst), BlockHeight: primitives.BlockHeight(c.RefH), View: primitives.View(c.View), BlockHash: hash}
		refRaw := refB.Build().Raw()
		var nodes []*protocol.SenderSignatureBuilder
		for _, s := range c.Signers {
			idx := s.Idx % len(w.ids)
			id := w.ids[idx]
			var sig []byte
			switch s.Mode {
			case "ok":
				sig = w.reg.SignAs(id, primitives.BlockHeight(c.RefH), refRaw)
			case "garbage":
				sig = []byte("garbage-signature-garbage-signat")
			case "prepare-header": // a genuine signature over the same reference with the PREPARE tag
				r2 := *refB
				r2.MessageType = protocol.LEAN_HELIX_PREPARE
				sig = w.reg.SignAs(id, primitives.BlockHeight(c.RefH), r2.Build().Raw())
			case "other-view":
				r2 := *refB
				r2.View++
				sig = w.reg.SignAs(id, primitives.BlockHeight(c.RefH), r2.Build().Raw())
			case "other-key":
				sig = w.reg.SignAs(w.ids[(idx+1)%len(w.ids)], primitives.BlockHeight(c.RefH), refRaw)
			case "prev-proof": // the genuine signature this signer gave in the previous proof validated on this instance
				sig = w.lastSigs[idx]
			}
			if w.curSigs == nil {
				w.curSigs = map[int][]byte{}
			}
			if s.Mode == "ok" {
				w.curSigs[idx] = sig
			}
			nodes = append(nodes, &protocol.SenderSignatureBuilder{MemberId: id, Signature: sig})
		}
		seed := ref.SeedBytes(ref.SeedOf(protocol.BlockProofReader(prevProof).RandomSeedSignature()))
		var seedSig []byte
		switch c.SeedMode {
		case "ok":
			seedSig = w.reg.MasterSeedSig(primitives.BlockHeight(c.RefH), seed)
		case "garbage":
			seedSig = []byte("garbage-seed-signature")
		case "other-height":
			seedSig = w.reg.MasterSeedSig(primitives.BlockHeight(c.RefH+1), seed)
		case "other-seed":
			seedSig = w.reg.MasterSeedSig(primitives.BlockHeight(c.RefH), []byte("12345"))
		}
		proof = (&protocol.BlockProofBuilder{BlockRef: refB, Nodes: nodes, RandomSeedSignature: seedSig}).Build().Raw()
		proof = applyByteOps(proof, c.ByteOps)
	}
	w.lastSigs, w.curSigs = w.curSigs, nil
	if shared != nil { // the consumer keeps one receive buffer and overwrites it with every proof
		if cap(*shared) < len(proof) {
			*shared = make([]byte, 0, 2*len(proof)+64)
		}
		*shared = (*shared)[:len(proof)]
		copy(*shared, proof)
		proof = *shared
	}
	var blk interfaces.Block = block
	if c.NilBlock {
		blk = nil
	}
	var err error
	var panicked interface{}
	w.mem.FailProofCommittee = c.NoCommittee
	func() {
		defer func() { panicked = recover() }()
		err = w.wl.ValidateBlockConsensus(context.Background(), blk, proof, prevBlock, prevProof, c.Soft)
	}()
	w.mem.FailProofCommittee = false
	if c.NoCommittee && err == nil && panicked == nil {
		return viol("accepted-without-committee", "ValidateBlockConsensus (soft=%v) returned nil although the committee of the block's height could not be obtained (the committee service failed while the context was alive): no signer can have been checked", c.Soft), true, false
	}
	if panicked != nil {
		return viol("validate-panic", "ValidateBlockConsensus panicked on a %d-byte proof: %v", len(proof), panicked), false, false
	}
	var ids []primitives.MemberId
	var perr error
	func() {
		defer func() { panicked = recover() }()
		ids, perr = leanhelix.GetMemberIdsFromBlockProof(proof)
	}()
	if panicked != nil {
		return viol("getmemberids-panic", "GetMemberIdsFromBlockProof panicked on a %d-byte proof: %v", len(proof), panicked), false, false
	}
	refVerdict := ref.Verdict{Why: "nil-block"}
	if !c.NilBlock {
		refVerdict = w.env.ValidBlockProof(proof, block, w.com, prevProof, c.Soft, commitmentOKc02)
	}
	if err == nil {
		if !refVerdict.OK {
			return viol("accepted-invalid-proof:"+refVerdict.Why, "ValidateBlockConsensus (soft=%v) returned nil but the reference validator rejects the proof: %s", c.Soft, refVerdict.Why), true, refVerdict.OK
		}
		// on accepted proofs GetMemberIdsFromBlockProof returns exactly the signer ids
		if perr != nil {
			return viol("getmemberids-error-on-accepted", "GetMemberIdsFromBlockProof failed on an accepted proof: %v", perr), true, true
		}
		it := protocol.BlockProofReader(proof).NodesIterator()
		k := 0
		for it.HasNext() {
			id := it.NextNodes().MemberId()
			if k >= len(ids) || !ids[k].Equal(id) {
				return viol("getmemberids-mismatch", "GetMemberIdsFromBlockProof does not return the signers of an accepted proof"), true, true
			}
			k++
		}
		if k != len(ids) {
			return viol("getmemberids-mismatch", "GetMemberIdsFromBlockProof returned %d ids for %d signers", len(ids), k), true, true
		}
	}
	return nil, err == nil, refVerdict.OK
}

func drawC02(t *rapid.T) c02Case {
	n := rapid.IntRange(4, 10).Draw(t, "n")
	ws := make([]uint64, n)
	wclass := rapid.IntRange(0, 12).Draw(t, "wclass") % 5
	for i := range ws {
		switch wclass {
		case 4: // a committee without any weight: nothing is a quorum of it, not even the signatures of all its members
			ws[i] = 0
		case 0:
			ws[i] = 1
		case 1:
			ws[i] = uint64(rapid.IntRange(0, 5).Draw(t, "w"))
		case 2:
			ws[i] = rapid.SampledFrom([]uint64{1, 1 << 31, 1 << 52, 1<<53 + 1, 1 << 60}).Draw(t, "wbig")
		default:
			ws[i] = uint64(rapid.IntRange(1, 3).Draw(t, "w"))
		}
	}
	h := uint64(rapid.IntRange(1, 5).Draw(t, "h"))
	c := c02Case{Weights: ws, Height: h, Soft: rapid.Bool().Draw(t, "soft"), Type: uint16(protocol.LEAN_HELIX_COMMIT), Inst: uint64(sim.Instance), RefH: h,
		View: uint64(rapid.IntRange(0, 3).Draw(t, "view")), HashMode: "ok", SeedMode: "ok", PrevMode: rapid.SampledFrom([]string{"nil", "genuine", "genuine"}).Draw(t, "prev")}
	// signer set: drawn at the thresholds. Start from all members in a drawn order and cut where the weight crosses a target.
	com := make([]interfaces.CommitteeMember, n)
	for i := range com {
		com[i] = interfaces.CommitteeMember{Id: sim.MemberName(i), Weight: primitives.MemberWeight(ws[i])}
	}
	order := rapid.Permutation(seq(n)).Draw(t, "order")
	target := rapid.SampledFrom([]string{"Q", "Q", "Q-", "F+1", "F", "all", "random"}).Draw(t, "target")
	var ids []primitives.MemberId
	for _, i := range order {
		ids2 := append(append([]primitives.MemberId{}, ids...), com[i].Id)
		stop := false
		switch target {
		case "Q":
			stop = ref.IsQuorum(ids, com)
		case "Q-":
			stop = ref.IsQuorum(ids2, com)
		case "F+1":
			stop = ref.HasHonest(ids, com)
		case "F":
			stop = ref.HasHonest(ids2, com)
		case "random":
			stop = rapid.IntRange(0, 3).Draw(t, "stop") == 0
		}
		if stop {
			break
		}
		ids = ids2
		c.Signers = append(c.Signers, c02Signer{Idx: i, Mode: "ok"})
	}
	// 0..3 mutations
	for k := rapid.SampledFrom([]int{0, 0, 1, 1, 1, 1, 2, 2, 3}).Draw(t, "nmut"); k > 0; k-- {
		switch rapid.IntRange(0, 15).Draw(t, "mut") {
		case 0: // duplicate signer
			if len(c.Signers) > 0 {
				c.Signers = append(c.Signers, c.Signers[rapid.IntRange(0, len(c.Signers)-1).Draw(t, "dup")])
			}
		case 1: // outsider padding with valid signatures
			c.Signers = append(c.Signers, c02Signer{Idx: n + rapid.IntRange(0, 1).Draw(t, "out"), Mode: "ok"})
		case 2: // replace a member by an outsider
			if len(c.Signers) > 0 {
				c.Signers[rapid.IntRange(0, len(c.Signers)-1).Draw(t, "which")] = c02Signer{Idx: n, Mode: "ok"}
			}
		case 3:
			c.Type = uint16(rapid.SampledFrom([]int{0, 1, 2, 4, 5, 9}).Draw(t, "type"))
		case 4:
			if len(c.Signers) > 0 {
				c.Signers[rapid.IntRange(0, len(c.Signers)-1).Draw(t, "which")].Mode = rapid.SampledFrom([]string{"garbage", "prepare-header", "other-view", "other-key"}).Draw(t, "sigmode")
			}
		case 5:
			c.Inst += uint64(rapid.IntRange(1, 3).Draw(t, "dinst"))
		case 6:
			c.RefH = uint64(rapid.SampledFrom([]int{0, int(h) + 1, int(h) - 1 + 2*0}).Draw(t, "refh"))
		case 7:
			c.HashMode = rapid.SampledFrom([]string{"other", "empty"}).Draw(t, "hashmode")
		case 8:
			c.SeedMode = rapid.SampledFrom([]string{"empty", "garbage", "other-height", "other-seed"}).Draw(t, "seedmode")
		case 9:
			c.PrevMode = "wrong"
		case 10:
			c.NilBlock = true
		case 11, 12:
			c.ByteOps = append(c.ByteOps, byteOp{K: rapid.SampledFrom([]string{"trunc", "flip", "set32", "insert", "drop"}).Draw(t, "bop"), Off: rapid.IntRange(0, 4096).Draw(t, "off"),
				Val: rapid.SampledFrom([]uint32{0, 1, 4, 0x7fffffff, 0xffffffff, 0xfffffffc, 255}).Draw(t, "val")})
		case 13: // drop a signer (below threshold)
			if len(c.Signers) > 0 {
				c.Signers = c.Signers[:len(c.Signers)-1]
			}
		case 14:
			c.Soft = !c.Soft
		case 15:
			c.RawProof = rapid.SliceOfN(rapid.Byte(), 0, 80).Draw(t, "rawproof")
		}
	}
	if rapid.IntRange(0, 11).Draw(t, "no-committee") == 0 {
		c.NoCommittee = true
	}
	return c
}

func TestC02(t *testing.T) {
	col := ev.Get("C02")
	rapid.Check(t, func(t *rapid.T) {
		c := drawC02(t)
		v, accepted, refOK := runC02(c)
		col.Case()
		switch {
		case accepted && refOK:
			col.Class("accepted-valid")
		case !accepted && refOK:
			col.Class("rejected-although-reference-valid")
		case !accepted:
			col.Class("rejected-invalid")
		}
		if refOK {
			col.Class("reference-valid")
		}
		if c.RawProof == nil && c.Type == uint16(protocol.LEAN_HELIX_COMMIT) && c.Inst == uint64(sim.Instance) && c.RefH == c.Height {
			b, _ := json.Marshal(c)
			col.NonTrivial(string(b))
		}
		col.Sample(func() interface{} { return c })
		if v != nil {
			if msg := ev.Report(v); msg != "" {
				t.Fatal(msg)
			}
		}
	})
}

// Sequences on ONE validator instance: a genuine proof, then one or two more for the same height - typically a fork block whose
// proof names its own hash but carries the signatures given for the first block - with every proof placed into the same receive
// buffer. Whatever the instance remembers between calls must not change a verdict.
type c02SeqCase struct {
	Cases       []c02Case `json:"cases"`
	ReuseBuffer bool      `json:"reuse_buffer"`
}

func runC02Seq(sc c02SeqCase) *ev.Violation {
	if len(sc.Cases) == 0 {
		return nil
	}
	w := newC02World(sc.Cases[0].Weights, sc.Cases[0].Height)
	var buf []byte
	for i, c := range sc.Cases {
		var shared *[]byte
		if sc.ReuseBuffer {
			shared = &buf
		}
		if v, _, _ := runC02In(w, c, shared); v != nil {
			v.Kind = fmt.Sprintf("sequence-step-%d:%s", i, v.Kind)
			v.Replayer = "C02seq"
			v.Case = sc
			return v
		}
	}
	return nil
}

func TestC02Seq(t *testing.T) {
	col := ev.Get("C02")
	rapid.Check(t, func(t *rapid.T) {
		first := drawC02(t)
		sc := c02SeqCase{Cases: []c02Case{first}, ReuseBuffer: rapid.IntRange(0, 3).Draw(t, "reuse") > 0}
		for k := rapid.IntRange(1, 2).Draw(t, "more"); k > 0; k-- {
			next := first
			next.Signers = append([]c02Signer{}, first.Signers...)
			next.ByteOps, next.RawProof = nil, nil
			switch rapid.IntRange(0, 3).Draw(t, "follow-up") {
			case 0, 1: // a fork block of the same height with its own (satisfied) hash, under the signatures given for the first block
				next.BlockID = "fork-block"
				for i := range next.Signers {
					next.Signers[i].Mode = "prev-proof"
				}
			case 2: // same block, other view, signatures lifted from the first proof
				next.View = first.View + 1
				for i := range next.Signers {
					next.Signers[i].Mode = "prev-proof"
				}
			case 3: // the same proof once more (must get the same verdict)
			}
			if rapid.IntRange(0, 3).Draw(t, "corrupt-in-place") == 0 { // same length, a size word overwritten: hostile bytes in the reused buffer
				next.Signers = append([]c02Signer{}, first.Signers...)
				next.BlockID, next.View = first.BlockID, first.View
				next.ByteOps = []byteOp{{K: "set32", Off: rapid.IntRange(0, 4096).Draw(t, "off"), Val: rapid.SampledFrom([]uint32{0xffffffff, 0xfffffffc, 0x7fffffff, 0}).Draw(t, "val")}}
			}
			if rapid.Bool().Draw(t, "flip-mode") {
				next.Soft = !next.Soft
			}
			sc.Cases = append(sc.Cases, next)
		}
		col.Case()
		col.Class("sequence-on-one-instance")
		if sc.ReuseBuffer {
			col.Class("sequence:buffer-reused")
		}
		b, _ := json.Marshal(sc)
		col.NonTrivial(string(b))
		if v := runC02Seq(sc); v != nil {
			if msg := ev.Report(v); msg != "" {
				t.Fatal(msg)
			}
		}
	})
}

// C12 (proof APIs): the same sequences, judged only for "never panics out to the caller": ValidateBlockConsensus and
// GetMemberIdsFromBlockProof on one instance, hostile bytes arriving in a buffer that held a well-formed proof a moment ago.
func TestC12Proofs(t *testing.T) {
	col := ev.Get("C12")
	rapid.Check(t, func(t *rapid.T) {
		first := drawC02(t)
		first.RawProof, first.ByteOps = nil, nil
		sc := c02SeqCase{Cases: []c02Case{first}, ReuseBuffer: rapid.IntRange(0, 4).Draw(t, "reuse") > 0}
		for k := rapid.IntRange(1, 3).Draw(t, "more"); k > 0; k-- {
			next := first
			next.Signers = append([]c02Signer{}, first.Signers...)
			next.ByteOps = nil
			for j := rapid.IntRange(1, 2).Draw(t, "nops"); j > 0; j-- {
				next.ByteOps = append(next.ByteOps, byteOp{K: rapid.SampledFrom([]string{"set32", "set32", "set32", "flip"}).Draw(t, "bop"), Off: rapid.IntRange(0, 4096).Draw(t, "off"),
					Val: rapid.SampledFrom([]uint32{0xffffffff, 0xfffffffc, 0x7fffffff, 0x80000000, 0, 1, 4}).Draw(t, "val")})
			}
			if rapid.IntRange(0, 2).Draw(t, "as-prev") == 0 {
				next.PrevMode = "genuine"
			}
			sc.Cases = append(sc.Cases, next)
		}
		col.Case()
		col.Class("proof-api:sequence-on-one-instance")
		if sc.ReuseBuffer {
			col.Class("proof-api:buffer-reused")
			b, _ := json.Marshal(sc)
			col.NonTrivial(string(b))
		}
		if v := runC02Seq(sc); v != nil && strings.Contains(v.Kind, "panic") {
			v.Property, v.Kind, v.Replayer = "C12", "panic-in-proof-api:"+v.Kind, "C12proofs"
			if msg := ev.Report(v); msg != "" {
				t.Fatal(msg)
			}
		}
	})
}

func init() {
	replayers["C12proofs"] = func(raw json.RawMessage) *ev.Violation {
		var c c02SeqCase
		if err := json.Unmarshal(raw, &c); err != nil {
			return &ev.Violation{Property: "C12", Kind: "bad-replay-file", Detail: err.Error()}
		}
		if v := runC02Seq(c); v != nil && strings.Contains(v.Kind, "panic") {
			v.Property, v.Kind, v.Replayer = "C12", "panic-in-proof-api:"+v.Kind, "C12proofs"
			return v
		}
		return nil
	}
	replayers["C02seq"] = func(raw json.RawMessage) *ev.Violation {
		var c c02SeqCase
		if err := json.Unmarshal(raw, &c); err != nil {
			return &ev.Violation{Property: "C02", Kind: "bad-replay-file", Detail: err.Error()}
		}
		return runC02Seq(c)
	}
	replayers["C02"] = func(raw json.RawMessage) *ev.Violation {
		var c c02Case
		if err := json.Unmarshal(raw, &c); err != nil {
			return &ev.Violation{Property: "C02", Kind: "bad-replay-file", Detail: err.Error()}
		}
		v, _, _ := runC02(c)
		return v
	}
}
