package props

import (
	"encoding/json"
	"fmt"
	"testing"

	"pgregory.net/rapid"

	"verif/ev"
	"verif/sim"
)

// ---------------------------------------------------------------- engine N: one real node, valid-then-mutated candidates

type nOpts struct {
	Focus     string
	Kinds     []string // candidate kinds
	MaxCands  int
	Scenarios bool     // also generate the scripted multi-step scenarios (early message for an upcoming view, then that view is entered, prepared and left)
	Mutations []string // restrict the mutation catalogue (nil = all)
}

func drawNConfig(t *rapid.T, focus string) (sim.Config, int) {
	n := rapid.IntRange(4, 9).Draw(t, "n")
	ws := make([]uint64, n)
	wclass := rapid.IntRange(0, 2).Draw(t, "wclass")
	for i := range ws {
		switch wclass {
		case 0:
			ws[i] = 1
		case 1:
			ws[i] = uint64(rapid.IntRange(1, 4).Draw(t, "w"))
		default:
			ws[i] = 1
			if i == 0 {
				ws[i] = uint64(rapid.IntRange(2, n-1).Draw(t, "heavy"))
			}
		}
	}
	cfg := sim.Config{N: n, Weights: ws, Order: rapid.Permutation(seq(n)).Draw(t, "order"), Rot: rapid.IntRange(0, n-1).Draw(t, "rot"),
		Outsiders: rapid.IntRange(0, 1).Draw(t, "outsiders"), MaxHeight: 2, Focus: focus}
	return cfg, rapid.IntRange(0, n-1).Draw(t, "me")
}

func drawMutations(t *rapid.T, o nOpts) []sim.Mutation {
	k := rapid.SampledFrom([]int{0, 0, 1, 1, 1, 1, 1, 2, 2, 3}).Draw(t, "nmut")
	cat := o.Mutations
	if len(cat) == 0 {
		cat = sim.MutationKinds
	}
	var out []sim.Mutation
	for i := 0; i < k; i++ {
		out = append(out, sim.Mutation{K: rapid.SampledFrom(cat).Draw(t, "mut"), A: rapid.IntRange(0, 40).Draw(t, "mutA"), Resign: rapid.Bool().Draw(t, "resign")})
	}
	return out
}

func drawNCase(t *rapid.T, o nOpts) sim.NCase {
	cfg, me := drawNConfig(t, o.Focus)
	c := sim.NCase{Cfg: cfg, Me: me}
	// height prefix: the node is not always at the first height - it gets to a later one by its own commit or by a node sync
	// (a term that starts from a sync is told that it cannot lead view 0; everything else about it is the same)
	if rapid.IntRange(0, 2).Draw(t, "height-prefix") == 0 {
		for k := rapid.IntRange(1, 2).Draw(t, "heights"); k > 0; k-- {
			c.Cfg.MaxHeight++
			if rapid.Bool().Draw(t, "by-sync") {
				c.Steps = append(c.Steps, sim.NStep{K: "sync"})
			} else {
				c.Steps = append(c.Steps, sim.NStep{K: "round"})
			}
		}
	}
	// state prefix: proposals / prepares / timeouts
	view := uint64(0)
	for i := rapid.IntRange(0, 5).Draw(t, "prefix"); i > 0; i-- {
		switch rapid.IntRange(0, 5).Draw(t, "pk") {
		case 0, 1:
			c.Steps = append(c.Steps, sim.NStep{K: "timeout"})
			view++
		case 2:
			c.Steps = append(c.Steps, sim.NStep{K: "propose", View: view, A: rapid.IntRange(0, 15).Draw(t, "pa")})
		case 3:
			c.Steps = append(c.Steps, sim.NStep{K: "propose", View: view, A: rapid.IntRange(0, 15).Draw(t, "pa")})
			c.Steps = append(c.Steps, sim.NStep{K: "prepares", View: view})
		case 4:
			nv := view + uint64(rapid.IntRange(1, 2).Draw(t, "jump"))
			c.Steps = append(c.Steps, sim.NStep{K: "propose", View: nv, A: rapid.IntRange(0, 15).Draw(t, "pa")})
			view = nv
		case 5:
			c.Steps = append(c.Steps, sim.NStep{K: "prepares", View: view, A: rapid.IntRange(0, 3).Draw(t, "partial")})
		}
	}
	if rapid.IntRange(0, 4).Draw(t, "resync?") == 0 { // the host repeats an UpdateState the node already has (nothing may come of it)
		c.Steps = append(c.Steps, sim.NStep{K: "resync", A: rapid.IntRange(0, 1).Draw(t, "resync-back")})
	}
	if o.Scenarios && rapid.IntRange(0, 3).Draw(t, "scenario?") == 0 {
		// scenario: a message for an upcoming view arrives early, then the node enters that view by a valid NEW_VIEW, gets prepared
		// there and leaves it by timeout (what it then emits is judged by the C09 / C11 monitors)
		kind := rapid.SampledFrom([]string{"PL", "PL", "P", "C"}).Draw(t, "early-kind")
		a := rapid.IntRange(0, 1).Draw(t, "early-a")
		c.Steps = append(c.Steps, sim.NStep{K: "cand", Kind: kind, From: rapid.IntRange(0, 8).Draw(t, "from"), A: a})
		target := view + 1 + uint64(a)
		c.Steps = append(c.Steps, sim.NStep{K: "propose", View: target, A: 0})
		c.Steps = append(c.Steps, sim.NStep{K: "prepares", View: target})
		for k := rapid.IntRange(1, 2).Draw(t, "early-timeouts"); k > 0; k-- {
			c.Steps = append(c.Steps, sim.NStep{K: "timeout"})
		}
	}
	if o.Scenarios && o.Focus == "C08" && rapid.IntRange(0, 5).Draw(t, "borrowed-share?") == 0 {
		// scenario: a member's genuine COMMIT is processed first, then another member's COMMIT arrives carrying THAT member's share bytes
		i := rapid.IntRange(0, 7).Draw(t, "first-committer")
		j := i + rapid.IntRange(1, 3).Draw(t, "second-committer")
		va := rapid.IntRange(0, 2).Draw(t, "commit-view")
		c.Steps = append(c.Steps, sim.NStep{K: "cand", Kind: "C", From: i, A: va})
		c.Steps = append(c.Steps, sim.NStep{K: "cand", Kind: "C", From: j, A: va, Muts: []sim.Mutation{{K: "share", A: 2 + 4*i}}})
	}
	if o.Scenarios && rapid.IntRange(0, 4).Draw(t, "next-height?") == 0 {
		// scenario: candidates built for the NEXT height arrive while the node is still one height behind (future cache), then the
		// node completes its height and the cache is drained into the new term (judged by the store-time invariants)
		for i := rapid.IntRange(1, 2).Draw(t, "next-cands"); i > 0; i-- {
			c.Steps = append(c.Steps, sim.NStep{K: "cand", Next: true, Kind: rapid.SampledFrom(o.Kinds).Draw(t, "kind"), From: rapid.IntRange(0, 8).Draw(t, "from"),
				A: rapid.IntRange(0, 15).Draw(t, "a"), B: rapid.IntRange(0, 63).Draw(t, "b"), Muts: drawMutations(t, o)})
		}
		if rapid.IntRange(0, 2).Draw(t, "next-then-skip") == 0 {
			// ... or the node is synced PAST that height: whatever is cached for the skipped height must not reach any term
			c.Cfg.MaxHeight = 4
			c.Steps = append(c.Steps, sim.NStep{K: "sync", A: rapid.IntRange(1, 2).Draw(t, "skip")})
		} else {
			c.Steps = append(c.Steps, sim.NStep{K: "round"})
		}
	}
	for i := rapid.IntRange(1, o.MaxCands).Draw(t, "ncand"); i > 0; i-- {
		c.Steps = append(c.Steps, sim.NStep{K: "cand", Kind: rapid.SampledFrom(o.Kinds).Draw(t, "kind"), From: rapid.IntRange(0, 8).Draw(t, "from"),
			A: rapid.IntRange(0, 15).Draw(t, "a"), B: rapid.IntRange(0, 63).Draw(t, "b"), Muts: drawMutations(t, o)})
		if rapid.IntRange(0, 4).Draw(t, "tmo-between") == 0 {
			c.Steps = append(c.Steps, sim.NStep{K: "timeout"})
		}
	}
	return c
}

func nProperty(t *testing.T, o nOpts) {
	col := ev.Get(o.Focus)
	rapid.Check(t, func(t *rapid.T) {
		c := drawNCase(t, o)
		r := sim.RunNCase(c)
		col.Case()
		for i, k := range r.CandKinds {
			acc := "rejected"
			if r.Accepted[i] {
				acc = "had-effect"
			}
			col.Class(fmt.Sprintf("N:%s:mut%d:%s", k, r.Mutated[i], acc))
			if r.Mutated[i] == 0 {
				col.Class("N:control-total:" + k)
				if r.Accepted[i] {
					col.Class("N:control-accepted:" + k)
				}
			}
			if r.Mutated[i] == 1 || (r.Mutated[i] == 0 && r.Accepted[i]) {
				b, _ := json.Marshal(c)
				col.NonTrivial(string(b))
			}
		}
		if r.Resyncs > 0 {
			col.Class("N:repeated-update-state")
		}
		for _, j := range r.LeaderJudged {
			col.Class("N:reference-leader-proposal-judged:" + j)
		}
		for _, st := range c.Steps {
			for _, m := range st.Muts {
				col.Class("N:mutation:" + m.K)
			}
		}
		col.Sample(func() interface{} { return c })
		if v := r.W.Viol; v != nil {
			v.Replayer = "N"
			v.Case = c
			if msg := ev.Report(v); msg != "" {
				t.Fatal(msg)
			}
		}
	})
}

// C07 — a node acts in a view > 0 only on a valid NEW_VIEW certificate (engine N).
func TestC07N(t *testing.T) {
	nProperty(t, nOpts{Focus: "C07", Kinds: []string{"NV", "NV", "NV", "NV", "PP", "VC"}, MaxCands: 3, Scenarios: true})
}

// C08 — only authentic, in-committee, role- and height-correct messages change state (engine N).
func TestC08N(t *testing.T) {
	nProperty(t, nOpts{Focus: "C08", Kinds: []string{"PP", "P", "P", "C", "C", "VC", "VC", "PL"}, MaxCands: 4, Scenarios: true})
}

// C09 — engine N scenarios: the node as voter (prepared, then timeouts) and as collector of generated vote sets.
func TestC09N(t *testing.T) {
	nProperty(t, nOpts{Focus: "C09", Kinds: []string{"VC", "VC", "VC", "P", "PP", "PL"}, MaxCands: 8, Scenarios: true,
		Mutations: []string{"block", "proof-drop", "proof-view", "proof-hash", "proof-below-quorum", "proof-add", "view", "sender", "sig", "proof-outsider-preparer"}})
}

func init() {
	replayers["N"] = func(raw json.RawMessage) *ev.Violation {
		var c sim.NCase
		if err := json.Unmarshal(raw, &c); err != nil {
			return &ev.Violation{Property: "?", Kind: "bad-replay-file", Detail: err.Error()}
		}
		r := sim.RunNCase(c)
		if v := r.W.Viol; v != nil {
			v.Replayer = "N"
			v.Case = c
			return v
		}
		return nil
	}
}

// C18 (behavioural part): on a real node, in views reached by timeouts and NEW_VIEWs, a PREPREPARE / NEW_VIEW is accepted only
// from the member at position (view mod n), a PREPARE only from someone else, a VIEW_CHANGE only when the node itself is that
// member; member ids are 20 bytes long and share their leading bytes. Also messages carrying views >= 2^63 must not panic.
func TestC18N(t *testing.T) {
	nProperty(t, nOpts{Focus: "C18", Kinds: []string{"PP", "PP", "NV", "NV", "P", "VC"}, MaxCands: 4,
		Mutations: []string{"sender", "sender", "sender", "view", "nvpp-signer", "sig"}})
}

// C13 (engine N part): views at the top of the 64-bit range. The node follows valid NEW_VIEWs into views up to 2^64-1 and then
// times out there; its (height, view) must never go back (a view that wraps to 0 is a decrease) and its election
// registrations must stay lexicographically non-decreasing.
func TestC13N(t *testing.T) {
	col := ev.Get("C13")
	rapid.Check(t, func(t *rapid.T) {
		cfg, me := drawNConfig(t, "C13")
		c := sim.NCase{Cfg: cfg, Me: me}
		bases := []uint64{^uint64(0), ^uint64(0), ^uint64(0) - 8, 1 << 63, 1<<63 - 4, 1 << 32, 1 << 31, 3}
		var views []uint64
		for i := rapid.IntRange(1, 3).Draw(t, "jumps"); i > 0; i-- {
			b := rapid.SampledFrom(bases).Draw(t, "base")
			views = append(views, b-uint64(rapid.IntRange(0, 4).Draw(t, "below")))
		}
		for i := range views { // ascending: a NEW_VIEW for a lower view is stale
			for j := i + 1; j < len(views); j++ {
				if views[j] < views[i] {
					views[i], views[j] = views[j], views[i]
				}
			}
		}
		for k := rapid.IntRange(0, 2).Draw(t, "timeouts-first"); k > 0; k-- {
			c.Steps = append(c.Steps, sim.NStep{K: "timeout"})
		}
		for _, v := range views {
			c.Steps = append(c.Steps, sim.NStep{K: "propose", View: v, A: rapid.IntRange(0, 15).Draw(t, "pa")})
			if rapid.Bool().Draw(t, "prepares") {
				c.Steps = append(c.Steps, sim.NStep{K: "prepares", View: v})
			}
			for k := rapid.IntRange(0, 3).Draw(t, "timeouts"); k > 0; k-- {
				c.Steps = append(c.Steps, sim.NStep{K: "timeout"})
			}
		}
		r := sim.RunNCase(c)
		col.Case()
		top := r.W.Obs.MaxView
		switch {
		case top == ^uint64(0):
			col.Class("N:reached-view-2^64-1")
		case top >= 1<<63:
			col.Class("N:reached-view>=2^63")
		case top >= 1<<31:
			col.Class("N:reached-view>=2^31")
		}
		if top >= 1<<31 {
			b, _ := json.Marshal(c)
			col.NonTrivial(string(b))
		}
		col.Sample(func() interface{} { return c })
		if v := r.W.Viol; v != nil {
			v.Replayer = "N"
			v.Case = c
			if msg := ev.Report(v); msg != "" {
				t.Fatal(msg)
			}
		}
	})
}
