package props

import (
	"encoding/json"
	"fmt"
	"math/big"
	"testing"

	"github.com/orbs-network/lean-helix-go/services/interfaces"
	"github.com/orbs-network/lean-helix-go/services/quorum"
	"github.com/orbs-network/lean-helix-go/spec/types/go/primitives"
	"pgregory.net/rapid"

	"verif/ev"
	"verif/ref"
)

// C06 — quorum arithmetic. Oracle: big-integer reference arithmetic + set laws with explicit witnesses.

type c06Case struct {
	Weights []uint64 `json:"weights"`
	A       []int    `json:"a"` // member indices; an index >= len(Weights) names a non-member; duplicates allowed
	B       []int    `json:"b"`
}

func memberID(i int) primitives.MemberId { return primitives.MemberId(fmt.Sprintf("m%03d", i)) }

func c06Committee(ws []uint64) []interfaces.CommitteeMember {
	c := make([]interfaces.CommitteeMember, len(ws))
	for i, w := range ws {
		c[i] = interfaces.CommitteeMember{Id: memberID(i), Weight: primitives.MemberWeight(w)}
	}
	return c
}

func idsOf(ix []int) []primitives.MemberId {
	out := make([]primitives.MemberId, len(ix))
	for i, x := range ix {
		out[i] = memberID(x)
	}
	return out
}

func bigU(u uint) *big.Int { return new(big.Int).SetUint64(uint64(u)) }

// runC06 checks every law of the property on one (committee, A, B) triple.
func runC06(c c06Case) *ev.Violation {
	viol := func(kind, format string, a ...interface{}) *ev.Violation {
		return &ev.Violation{Property: "C06", Kind: kind, Detail: fmt.Sprintf(format, a...), Replayer: "C06", Case: c}
	}
	com := c06Committee(c.Weights)
	W := ref.Total(com)
	if W.BitLen() > 64 {
		return nil // outside the property's quantifier (total must fit in 64 bits)
	}
	F, Q := ref.F(com), ref.Q(com)
	ws := quorum.GetWeights(com)
	if W.Sign() > 0 { // f of a committee without weight is left open (floor(-1/3) is not a weight)
		if f := bigU(quorum.CalcByzMaxWeight(ws)); f.Cmp(F) != 0 {
			return viol("calcF", "W=%s: CalcByzMaxWeight=%s, floor((W-1)/3)=%s", W, f, F)
		}
	}
	if q := bigU(quorum.CalcQuorumWeight(ws)); q.Cmp(Q) != 0 { // W=0: Q=1, nothing passes the quorum test
		return viol("calcQ", "W=%s: CalcQuorumWeight=%s, W-f=%s", W, q, Q)
	}
	A, B := idsOf(c.A), idsOf(c.B)
	qa, wa, _ := quorum.IsQuorum(A, com)
	qb, wb, _ := quorum.IsQuorum(B, com)
	ha, wha, _ := quorum.HasHonest(A, com)
	hb, _, _ := quorum.HasHonest(B, com)
	refWA, refWB := ref.Weight(A, com), ref.Weight(B, com)
	// returned weights: duplicates, non-members and zero-weight members never add weight
	if bigU(wa).Cmp(refWA) != 0 || bigU(wha).Cmp(refWA) != 0 {
		return viol("weight", "subset A weight impl=%d/%d ref=%s", wa, wha, refWA)
	}
	if bigU(wb).Cmp(refWB) != 0 {
		return viol("weight", "subset B weight impl=%d ref=%s", wb, refWB)
	}
	// quorum ⇒ has-honest
	if qa && !ha {
		return viol("honest", "A passes the quorum test but not the has-honest test (w=%s F=%s Q=%s)", refWA, F, Q)
	}
	// intersection: two quorums share members of weight > f
	if qa && qb {
		inB := map[int]bool{}
		for _, x := range c.B {
			inB[x] = true
		}
		var inter []int
		for _, x := range c.A {
			if inB[x] {
				inter = append(inter, x)
			}
		}
		wi := ref.Weight(idsOf(inter), com)
		if wi.Cmp(F) <= 0 {
			return viol("intersection", "two sets passing IsQuorum intersect in weight %s <= f=%s (W=%s wA=%s wB=%s)", wi, F, W, refWA, refWB)
		}
	}
	// attainability: the members outside any subset of weight <= f still pass the quorum test (W >= 1)
	if W.Sign() > 0 && refWA.Cmp(F) <= 0 {
		inA := map[int]bool{}
		for _, x := range c.A {
			inA[x] = true
		}
		var rest []int
		for i := range c.Weights {
			if !inA[i] {
				rest = append(rest, i)
			}
		}
		if ok, w, q := quorum.IsQuorum(idsOf(rest), com); !ok {
			return viol("attainable", "members outside a subset of weight %s <= f=%s do not pass IsQuorum (their weight %d, impl quorum %d, W=%s)", refWA, F, w, q, W)
		}
	}
	// monotone: A ⊆ A∪B
	union := append(append([]int{}, c.A...), c.B...)
	qu, _, _ := quorum.IsQuorum(idsOf(union), com)
	hu, _, _ := quorum.HasHonest(idsOf(union), com)
	if (qa && !qu) || (ha && !hu) || (qb && !qu) || (hb && !hu) {
		return viol("monotone", "a subset passes a test that its superset fails")
	}
	// padding invariance: add duplicates, a non-member, and every zero-weight member
	pad := append([]int{}, c.A...)
	pad = append(pad, c.A...)
	pad = append(pad, len(c.Weights)+7)
	for i, w := range c.Weights {
		if w == 0 {
			pad = append(pad, i)
		}
	}
	qp, wp, _ := quorum.IsQuorum(idsOf(pad), com)
	hp, _, _ := quorum.HasHonest(idsOf(pad), com)
	if qp != qa || hp != ha || wp != wa {
		return viol("padding", "duplicates / non-members / zero-weight members changed a result (quorum %v->%v honest %v->%v weight %d->%d)", qa, qp, ha, hp, wa, wp)
	}
	// agreement with the reference tests themselves (exact thresholds)
	if qa != ref.IsQuorum(A, com) {
		return viol("threshold", "IsQuorum(A)=%v but weight %s vs Q=%s", qa, refWA, Q)
	}
	if W.Sign() > 0 {
		if ha != ref.HasHonest(A, com) {
			return viol("threshold", "HasHonest(A)=%v but weight %s vs F=%s", ha, refWA, F)
		}
	}
	return nil
}

func c06NonTrivial(c c06Case) (bool, string) {
	com := c06Committee(c.Weights)
	W, F, Q := ref.Total(com), ref.F(com), ref.Q(com)
	wa := ref.Weight(idsOf(c.A), com)
	near := func(x, y *big.Int) bool {
		d := new(big.Int).Sub(x, y)
		return d.CmpAbs(big.NewInt(1)) <= 0
	}
	big53 := W.BitLen() > 53
	nearT := near(wa, F) || near(wa, Q)
	if !big53 && !nearT {
		return false, ""
	}
	return true, fmt.Sprintf("%v|%v|%v", c.Weights, c.A, c.B)
}

func c06Record(c c06Case, col *ev.Collector) {
	col.Case()
	if nt, sig := c06NonTrivial(c); nt {
		col.NonTrivial(sig)
		col.Class("nontrivial")
	}
	com := c06Committee(c.Weights)
	switch bl := ref.Total(com).BitLen(); {
	case bl > 63:
		col.Class("total>=2^63")
	case bl > 53:
		col.Class("total 2^53..2^63")
	case bl > 32:
		col.Class("total 2^32..2^53")
	default:
		col.Class("total<2^32")
	}
	col.Sample(func() interface{} { return c })
}

// Exhaustive part: every weight vector with n<=4 over 0..3 (and n=5 over 0..2), every pair of subsets.
func TestC06Exhaustive(t *testing.T) {
	col := ev.Get("C06")
	var count int64
	enum := func(n int, maxW uint64) {
		ws := make([]uint64, n)
		var rec func(i int)
		rec = func(i int) {
			if i == n {
				for a := 0; a < 1<<uint(n); a++ {
					for b := 0; b < 1<<uint(n); b++ {
						c := c06Case{Weights: append([]uint64{}, ws...)}
						for k := 0; k < n; k++ {
							if a>>uint(k)&1 == 1 {
								c.A = append(c.A, k)
							}
							if b>>uint(k)&1 == 1 {
								c.B = append(c.B, k)
							}
						}
						count++
						if nt, sig := c06NonTrivial(c); nt {
							col.NonTrivial(sig)
						}
						if v := runC06(c); v != nil {
							if msg := ev.Report(v); msg != "" {
								t.Fatal(msg)
							}
						}
					}
				}
				return
			}
			for w := uint64(0); w <= maxW; w++ {
				ws[i] = w
				rec(i + 1)
			}
		}
		rec(0)
	}
	for n := 1; n <= 4; n++ {
		enum(n, 3)
	}
	enum(5, 2)
	if ev.Thorough() {
		enum(5, 3)
		enum(6, 2)
	}
	col.Cases(count)
	col.Exhaust("weight vectors n<=4 over 0..3 and n=5 over 0..2 (thorough: + n=5 over 0..3, n=6 over 0..2) x all pairs of subsets", count)
}

var c06WeightGen = rapid.OneOf(
	rapid.Just(uint64(0)),
	rapid.Uint64Range(1, 5),
	rapid.Uint64Range(1, 5),
	rapid.Uint64Range(1<<31-2, 1<<31+2),
	rapid.Uint64Range(1<<53-3, 1<<53+3),
	rapid.Uint64Range(1<<60-3, 1<<60+3),
	rapid.Uint64Range(1<<62-3, 1<<62+3),
	rapid.Uint64(),
)

func drawIdxList(t *rapid.T, n int, label string) []int {
	// subset of members as a bitmask-like draw + optional duplicates and non-members
	var out []int
	for i := 0; i < n; i++ {
		if rapid.Bool().Draw(t, fmt.Sprintf("%s%d", label, i)) {
			out = append(out, i)
		}
	}
	extra := rapid.SliceOfN(rapid.IntRange(0, n+2), 0, 3).Draw(t, label+"extra")
	if n > 16 { // duplicates of a few members, many times over (a duplicate must never add weight)
		who := rapid.IntRange(0, n-1).Draw(t, label+"dupwho")
		for k := rapid.IntRange(0, 70).Draw(t, label+"dups"); k > 0; k-- {
			extra = append(extra, who)
		}
	}
	return append(out, extra...)
}

func TestC06Random(t *testing.T) {
	col := ev.Get("C06")
	rapid.Check(t, func(t *rapid.T) {
		n := rapid.IntRange(1, 16).Draw(t, "n")
		if rapid.IntRange(0, 5).Draw(t, "large") == 0 { // committees beyond 64 members (word-size assumptions)
			n = rapid.IntRange(60, 140).Draw(t, "nlarge")
		}
		ws := make([]uint64, 0, n)
		var tot big.Int
		for i := 0; i < n; i++ {
			w := c06WeightGen.Draw(t, "w")
			nt := new(big.Int).Add(&tot, new(big.Int).SetUint64(w))
			if nt.BitLen() > 64 { // keep the total inside 64 bits by construction
				w = 0
				nt = &tot
			}
			tot = *nt
			ws = append(ws, w)
		}
		c := c06Case{Weights: ws, A: drawIdxList(t, n, "a"), B: drawIdxList(t, n, "b")}
		c06Record(c, col)
		if v := runC06(c); v != nil {
			if msg := ev.Report(v); msg != "" {
				t.Fatal(msg)
			}
		}
	})
}

// Boundary-shaped committees built from the reference arithmetic for a target total W:
// [F, W-F], [F+1, W-F-1], [F+1, F+1, W-2F-2], [F, F, W-2F] (+ zero-weight padding), with the subsets that sit on the thresholds.
func TestC06Boundary(t *testing.T) {
	col := ev.Get("C06")
	rapid.Check(t, func(t *rapid.T) {
		base := rapid.SampledFrom([]uint64{7, 10, 100, 1 << 31, 1 << 32, 1 << 52, 1 << 53, 1 << 54, 1 << 55, 1 << 60, 1 << 62, 1 << 63, ^uint64(0) - 40}).Draw(t, "base")
		W := base + uint64(rapid.IntRange(0, 40).Draw(t, "off"))
		if W < 4 {
			W = 4
		}
		F := (W - 1) / 3
		shape := rapid.IntRange(0, 4).Draw(t, "shape")
		var ws []uint64
		switch shape {
		case 0:
			ws = []uint64{F, W - F}
		case 1:
			ws = []uint64{F + 1, W - F - 1}
		case 2:
			ws = []uint64{F + 1, F + 1, W - 2*F - 2}
		case 3:
			ws = []uint64{F, F, W - 2*F}
		case 4:
			ws = []uint64{F, 1, W - F - 1}
		}
		if rapid.Bool().Draw(t, "zeroPad") {
			ws = append(ws, 0)
		}
		n := len(ws)
		c := c06Case{Weights: ws, A: drawIdxList(t, n, "a"), B: drawIdxList(t, n, "b")}
		c06Record(c, col)
		col.Class(fmt.Sprintf("boundary-shape-%d", shape))
		if v := runC06(c); v != nil {
			if msg := ev.Report(v); msg != "" {
				t.Fatal(msg)
			}
		}
	})
}

func init() {
	replayers["C06"] = func(raw json.RawMessage) *ev.Violation {
		var c c06Case
		if err := json.Unmarshal(raw, &c); err != nil {
			return &ev.Violation{Property: "C06", Kind: "bad-replay-file", Detail: err.Error()}
		}
		return runC06(c)
	}
}

// Stateful use of the quorum functions: ONE committee slice object whose weights are refreshed in place between calls (a consumer
// Membership that reuses its buffer from height to height), interleaved with calls on other committees. Whatever the package
// remembers between calls must not change a result: every call is compared with the reference evaluated on the current values.
type c06SeqOp struct {
	K       string   `json:"k"` // set (rewrite the shared slice's weights in place) | check (on the shared slice) | other (a check on a fresh committee)
	Weights []uint64 `json:"weights,omitempty"`
	A       []int    `json:"a,omitempty"`
}

type c06SeqCase struct {
	N   int        `json:"n"`
	Ops []c06SeqOp `json:"ops"`
}

func runC06Seq(c c06SeqCase) *ev.Violation {
	viol := func(kind, format string, a ...interface{}) *ev.Violation {
		return &ev.Violation{Property: "C06", Kind: kind, Detail: fmt.Sprintf(format, a...), Replayer: "C06seq", Case: c}
	}
	shared := c06Committee(make([]uint64, c.N))
	for i := range shared {
		shared[i].Weight = 1
	}
	check := func(step int, com []interfaces.CommitteeMember, a []int) *ev.Violation {
		if ref.Total(com).BitLen() > 64 || ref.Total(com).Sign() == 0 {
			return nil
		}
		A := idsOf(a)
		q, w, _ := quorum.IsQuorum(A, com)
		h, _, _ := quorum.HasHonest(A, com)
		if q != ref.IsQuorum(A, com) || h != ref.HasHonest(A, com) || bigU(w).Cmp(ref.Weight(A, com)) != 0 {
			return viol("stateful-result-differs", "step %d: IsQuorum=%v HasHonest=%v weight=%d, reference on the committee's current weights: %v %v %s (Q=%s f=%s)", step, q, h, w, ref.IsQuorum(A, com), ref.HasHonest(A, com), ref.Weight(A, com), ref.Q(com), ref.F(com))
		}
		ws := quorum.GetWeights(com)
		if bigU(quorum.CalcQuorumWeight(ws)).Cmp(ref.Q(com)) != 0 || bigU(quorum.CalcByzMaxWeight(ws)).Cmp(ref.F(com)) != 0 {
			return viol("stateful-threshold-differs", "step %d: thresholds differ from the reference on the committee's current weights", step)
		}
		return nil
	}
	for i, op := range c.Ops {
		switch op.K {
		case "set":
			for j := range shared {
				if j < len(op.Weights) {
					shared[j].Weight = primitives.MemberWeight(op.Weights[j])
				}
			}
		case "check":
			if v := check(i, shared, op.A); v != nil {
				return v
			}
		case "other":
			if v := check(i, c06Committee(op.Weights), op.A); v != nil {
				return v
			}
		}
	}
	return nil
}

func TestC06Stateful(t *testing.T) {
	col := ev.Get("C06")
	rapid.Check(t, func(t *rapid.T) {
		n := rapid.IntRange(4, 8).Draw(t, "n")
		c := c06SeqCase{N: n}
		drawWs := func(k int) []uint64 {
			ws := make([]uint64, k)
			cls := rapid.IntRange(0, 3).Draw(t, "wclass")
			for i := range ws {
				switch cls {
				case 0:
					ws[i] = 1
				case 1:
					ws[i] = uint64(rapid.IntRange(0, 10).Draw(t, "w"))
				case 2:
					ws[i] = uint64(rapid.IntRange(1, 4).Draw(t, "w")) << 58
				default:
					ws[i] = uint64(rapid.IntRange(1, 3).Draw(t, "w"))
				}
			}
			return ws
		}
		sets := 0
		for i := rapid.IntRange(3, 12).Draw(t, "nops"); i > 0; i-- {
			switch rapid.IntRange(0, 4).Draw(t, "op") {
			case 0, 1:
				c.Ops = append(c.Ops, c06SeqOp{K: "set", Weights: drawWs(n)})
				sets++
			case 2, 3:
				c.Ops = append(c.Ops, c06SeqOp{K: "check", A: drawIdxList(t, n, "a")})
			case 4:
				k := rapid.IntRange(4, 8).Draw(t, "othern")
				c.Ops = append(c.Ops, c06SeqOp{K: "other", Weights: drawWs(k), A: drawIdxList(t, k, "oa")})
			}
		}
		col.Case()
		col.Class("stateful:same-slice-refreshed-in-place")
		if sets >= 2 {
			b, _ := json.Marshal(c)
			col.NonTrivial(string(b))
		}
		if v := runC06Seq(c); v != nil {
			if msg := ev.Report(v); msg != "" {
				t.Fatal(msg)
			}
		}
	})
}

func init() {
	replayers["C06seq"] = func(raw json.RawMessage) *ev.Violation {
		var c c06SeqCase
		if err := json.Unmarshal(raw, &c); err != nil {
			return &ev.Violation{Property: "C06", Kind: "bad-replay-file", Detail: err.Error()}
		}
		return runC06Seq(c)
	}
}
