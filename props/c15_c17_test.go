package props

import (
	"context"
	"encoding/json"
	"fmt"
	"math"
	"testing"

	"github.com/orbs-network/lean-helix-go/services/interfaces"
	L "github.com/orbs-network/lean-helix-go/services/logger"
	"github.com/orbs-network/lean-helix-go/services/rawmessagesfilter"
	"github.com/orbs-network/lean-helix-go/spec/types/go/primitives"
	"github.com/orbs-network/lean-helix-go/state"
	"pgregory.net/rapid"

	"verif/ev"
	"verif/fakes"
	"verif/sim"
)

// ---------------------------------------------------------------- C15 (a): context registry laws against a reference model

type ctxOp struct {
	K string `json:"k"` // for | cancel | shutdown
	H uint64 `json:"h"`
	V uint64 `json:"v"`
}

type c15aCase struct {
	Ops []ctxOp `json:"ops"`
}

type issued struct {
	h, v uint64
	ctx  context.Context
}

func olderHV(h1, v1, h2, v2 uint64) bool { return h1 < h2 || (h1 == h2 && v1 < v2) }

// runC15a: after every op, every context ever issued is Done iff the model says so: some later CancelOlderThan(x) with its (h,v) < x,
// or Shutdown. For errs iff shut down or (h,v) below the watermark (the largest cancel argument so far).
func runC15a(c c15aCase) *ev.Violation {
	viol := func(kind, format string, a ...interface{}) *ev.Violation {
		return &ev.Violation{Property: "C15", Kind: kind, Detail: fmt.Sprintf(format, a...), Replayer: "C15a", Case: c}
	}
	reg := state.NewViewContexts()
	var all []issued
	modelDone := map[int]bool{}
	shutdown := false
	haveWM := false
	var wmH, wmV uint64
	for i, op := range c.Ops {
		switch op.K {
		case "for":
			ctx, err := reg.For(state.NewHeightView(primitives.BlockHeight(op.H), primitives.View(op.V)))
			wantErr := shutdown || (haveWM && olderHV(op.H, op.V, wmH, wmV))
			if (err != nil) != wantErr {
				return viol("registry-for-error-mismatch", "op %d For(%d,%d): err=%v, model expects error=%v (shutdown=%v watermark=(%d,%d) set=%v)", i, op.H, op.V, err, wantErr, shutdown, wmH, wmV, haveWM)
			}
			if err == nil {
				if ctx == nil {
					return viol("registry-nil-context", "op %d For(%d,%d) returned a nil context without error", i, op.H, op.V)
				}
				if ctx.Err() != nil {
					return viol("registry-issued-cancelled-context", "op %d For(%d,%d) handed out an already cancelled context", i, op.H, op.V)
				}
				all = append(all, issued{op.H, op.V, ctx})
			}
		case "cancel":
			reg.CancelOlderThan(state.NewHeightView(primitives.BlockHeight(op.H), primitives.View(op.V)))
			for k, is := range all {
				if olderHV(is.h, is.v, op.H, op.V) {
					modelDone[k] = true
				}
			}
			if !haveWM || olderHV(wmH, wmV, op.H, op.V) {
				haveWM, wmH, wmV = true, op.H, op.V
			}
		case "shutdown":
			reg.Shutdown()
			shutdown = true
			for k := range all {
				modelDone[k] = true
			}
		}
		for k, is := range all {
			done := is.ctx.Err() != nil
			if done != modelDone[k] {
				if done {
					return viol("registry-cancelled-without-cause", "after op %d (%s %d,%d): the context issued for (%d,%d) is cancelled although no CancelOlderThan above it / Shutdown happened", i, op.K, op.H, op.V, is.h, is.v)
				}
				return viol("registry-not-cancelled", "after op %d (%s %d,%d): the context issued for (%d,%d) is still live although it is older than a cancel argument or the registry was shut down", i, op.K, op.H, op.V, is.h, is.v)
			}
		}
	}
	return nil
}

var c15Views = []uint64{0, 1, 2, math.MaxUint64}

func TestC15Exhaustive(t *testing.T) {
	col := ev.Get("C15")
	var alphabet []ctxOp
	for h := uint64(0); h <= 2; h++ {
		for _, v := range c15Views {
			alphabet = append(alphabet, ctxOp{"for", h, v}, ctxOp{"cancel", h, v})
		}
	}
	alphabet = append(alphabet, ctxOp{K: "shutdown"})
	depth := 3
	if ev.Thorough() {
		depth = 4
	}
	var count int64
	seqv := make([]ctxOp, depth)
	var rec func(d int)
	rec = func(d int) {
		if d == depth {
			c := c15aCase{Ops: append([]ctxOp{}, seqv...)}
			count++
			if v := runC15a(c); v != nil {
				if msg := ev.Report(v); msg != "" {
					t.Fatal(msg)
				}
			}
			return
		}
		for _, a := range alphabet {
			seqv[d] = a
			rec(d + 1)
		}
	}
	rec(0)
	col.Cases(count)
	col.NonTrivial(fmt.Sprintf("exhaustive-depth-%d", depth))
	col.NonTrivial("exhaustive-registry")
	col.Exhaust(fmt.Sprintf("registry: all sequences of length %d over {For,CancelOlderThan}x{h 0..2}x{v 0,1,2,2^64-1} + Shutdown", depth), count)
}

func TestC15Registry(t *testing.T) {
	col := ev.Get("C15")
	rapid.Check(t, func(t *rapid.T) {
		n := rapid.IntRange(1, 60).Draw(t, "n")
		var c c15aCase
		for i := 0; i < n; i++ {
			k := rapid.SampledFrom([]string{"for", "for", "for", "cancel", "cancel", "shutdown"}).Draw(t, "k")
			if k == "shutdown" && rapid.IntRange(0, 5).Draw(t, "really") > 0 {
				k = "for"
			}
			c.Ops = append(c.Ops, ctxOp{K: k, H: uint64(rapid.IntRange(0, 3).Draw(t, "h")), V: rapid.SampledFrom([]uint64{0, 1, 2, 3, math.MaxUint64}).Draw(t, "v")})
		}
		col.Case()
		cancels := 0
		for _, op := range c.Ops {
			if op.K == "cancel" {
				cancels++
			}
		}
		if cancels >= 2 {
			b, _ := json.Marshal(c)
			col.NonTrivial(string(b))
		}
		col.Class("P:registry-random")
		col.Sample(func() interface{} { return c })
		if v := runC15a(c); v != nil {
			if msg := ev.Report(v); msg != "" {
				t.Fatal(msg)
			}
		}
	})
}

// ---------------------------------------------------------------- C17: height filter and future cache against a reference model

type c17Op struct {
	K       string `json:"k"`        // recv | advance
	DH      int    `json:"dh"`       // recv: height relative to the current height (-2..+4)
	Other   bool   `json:"other"`    // recv: other instance id
	Mine    bool   `json:"mine"`     // recv: sender is this node
	N       int    `json:"n"`        // advance: by how many heights (1..3)
	ReentAt int    `json:"reent_at"` // advance: the handler of the new height advances by 1 again from inside its ReentAt-th delivery (0 = never)
	ViewAt  int    `json:"view_at"`  // advance: the handler of the new height moves the VIEW forward from inside its ViewAt-th delivery (a cached NEW_VIEW / election quorum does that)
}

type c17Case struct {
	Ops []c17Op `json:"ops"`
}

type c17Delivery struct {
	tag           int
	handlerHeight uint64
}

type c17Handler struct {
	height uint64
	w      *c17World
	count  int
	reent  int
	viewAt int
}

type c17World struct {
	st         *state.State
	filter     *rawmessagesfilter.RawMessageFilter
	deliveries []c17Delivery
	tags       map[string]int // content -> tag
	me         primitives.MemberId
	viol       *ev.Violation
	reentered  bool
	viewMoved  bool
	recvs      []c17Recv
	startedAt  map[uint64]int // height -> number of messages received before the node started that height
	cutAfter   map[uint64]int // height -> tag of the delivery that ended it from within (re-entrant advance)
}

func (h *c17Handler) HandleConsensusMessage(m interfaces.ConsensusMessage) error {
	w := h.w
	tag := w.tags[string(m.Raw())]
	w.deliveries = append(w.deliveries, c17Delivery{tag: tag, handlerHeight: h.height})
	h.count++
	if h.viewAt > 0 && h.count == h.viewAt {
		// what a cached NEW_VIEW (or the vote that completes this node's election) does from inside a cache drain: same height, next view
		w.viewMoved = true
		w.st.SetView(w.st.View() + 1)
	}
	if h.reent > 0 && h.count == h.reent {
		// what commit -> onNewConsensusRound does from inside a cache drain
		w.reentered = true
		if w.cutAfter == nil {
			w.cutAfter = map[uint64]int{}
		}
		w.cutAfter[h.height] = tag // this delivery ended height h.height: later-received messages of that height are from the past now
		w.advanceTo(h.height+1, 0, 0)
	}
	return nil
}

func (w *c17World) advanceTo(height uint64, reent int, viewAt int) {
	if _, err := w.st.SetHeightAndResetView(primitives.BlockHeight(height)); err != nil {
		return
	}
	w.startedAt[height] = len(w.recvs)
	w.filter.ConsumeCacheMessages(&c17Handler{height: height, w: w, reent: reent, viewAt: viewAt})
}

type c17Recv struct {
	tag      int
	height   uint64
	accepted bool   // my instance, not my own message, not below the current height at receipt
	curAt    uint64 // current height at receipt
	order    int
}

func runC17(c c17Case) (*ev.Violation, bool) {
	viol := func(kind, format string, a ...interface{}) *ev.Violation {
		return &ev.Violation{Property: "C17", Kind: kind, Detail: fmt.Sprintf(format, a...), Replayer: "C17", Case: c}
	}
	reg := fakes.NewRegistry()
	me, other := sim.MemberName(0), sim.MemberName(1)
	reg.Add(me)
	reg.Add(other)
	st := state.NewState()
	cfg := &interfaces.Config{InstanceId: sim.Instance, Membership: &fakes.Membership{Me: me}}
	w := &c17World{st: st, tags: map[string]int{}, me: me, startedAt: map[uint64]int{}}
	w.filter = rawmessagesfilter.NewConsensusMessageFilter(sim.Instance, me, L.NewLhLogger(cfg, st), st)
	cur := uint64(3)
	w.advanceTo(cur, 0, 0)
	tag := 0
	for _, op := range c.Ops {
		cur = uint64(st.Height())
		switch op.K {
		case "recv":
			tag++
			h := uint64(int(cur) + op.DH)
			inst := uint64(sim.Instance)
			if op.Other {
				inst++
			}
			sender := other
			if op.Mine {
				sender = me
			}
			// a PREPARE with a unique hash (the tag) so that deliveries can be identified
			sp := &sim.MsgSpec{Union: sim.UP, Ref: sim.RefSpec{Type: sim.TP, Inst: inst, H: h, V: 0, Hash: []byte(fmt.Sprintf("tag-%06d", tag))}, Sender: sim.SigSpec{ID: sender, Sig: []byte("s")}}
			raw := sp.Build()
			msg := interfaces.ToConsensusMessage(raw)
			w.tags[string(msg.Raw())] = tag
			w.recvs = append(w.recvs, c17Recv{tag: tag, height: h, accepted: !op.Other && !op.Mine && h >= cur, curAt: cur, order: len(w.recvs)})
			w.filter.HandleConsensusRawMessage(raw)
		case "advance":
			before := uint64(st.Height())
			n := op.N
			if n < 1 {
				n = 1
			}
			w.advanceTo(before+uint64(n), op.ReentAt, op.ViewAt)
		}
	}
	// ---- oracle
	recvs, startedAt := w.recvs, w.startedAt
	byTag := map[int]c17Recv{}
	for _, r := range recvs {
		byTag[r.tag] = r
	}
	seen := map[int]int{}
	lastOrderAt := map[uint64]int{}
	for _, d := range w.deliveries {
		r := byTag[d.tag]
		if d.handlerHeight != r.height {
			return viol("delivered-to-other-height", "message of height %d was delivered to the handler of height %d (re-entrant advance in this case: %v)", r.height, d.handlerHeight, w.reentered), w.reentered
		}
		if !r.accepted {
			return viol("delivered-filtered-message", "a message that must be filtered (other instance / own / past height %d at current %d) reached the handler", r.height, r.curAt), w.reentered
		}
		seen[d.tag]++
		if seen[d.tag] > 1 {
			return viol("delivered-twice", "message (height %d) was delivered twice", r.height), w.reentered
		}
		if lo, ok := lastOrderAt[r.height]; ok && r.order < lo {
			return viol("delivered-out-of-order", "messages of height %d were delivered out of receive order", r.height), w.reentered
		}
		lastOrderAt[r.height] = r.order
	}
	// current-height messages accepted at receipt must have been delivered at once
	for _, r := range recvs {
		if r.accepted && r.height == r.curAt && seen[r.tag] == 0 {
			return viol("current-height-message-not-delivered", "a valid message for the current height %d was not delivered", r.height), w.reentered
		}
	}
	// a cached message for H must be delivered at the start of H when no accepted-for-caching message for a height above H
	// was received at any time before the node starts H
	for _, r := range recvs {
		if !r.accepted || r.height == r.curAt {
			continue
		}
		start, started := startedAt[r.height]
		if !started || start <= r.order {
			continue // H never started, or the message arrived after the start (then it was a current/past-height message)
		}
		higherBefore := false
		for _, o := range recvs[:start] {
			if o.accepted && o.height > o.curAt && o.height > r.height {
				higherBefore = true
			}
		}
		if cut, ok := w.cutAfter[r.height]; ok && byTag[cut].order < r.order {
			continue // the height was completed by an earlier-received message while its cache was being consumed
		}
		if !higherBefore && seen[r.tag] == 0 {
			return viol("cached-message-lost", "a message cached for height %d was not delivered when the node started that height although no message for a higher height had been cached before", r.height), w.reentered
		}
	}
	return nil, w.reentered
}

func TestC17Exhaustive(t *testing.T) {
	col := ev.Get("C17")
	var alphabet []c17Op
	for dh := -1; dh <= 3; dh++ {
		alphabet = append(alphabet, c17Op{K: "recv", DH: dh})
	}
	alphabet = append(alphabet, c17Op{K: "recv", DH: 1, Other: true}, c17Op{K: "recv", DH: 1, Mine: true}, c17Op{K: "recv", DH: 0, Mine: true})
	alphabet = append(alphabet, c17Op{K: "advance", N: 1}, c17Op{K: "advance", N: 2}, c17Op{K: "advance", N: 1, ReentAt: 1}, c17Op{K: "advance", N: 1, ReentAt: 2},
		c17Op{K: "advance", N: 1, ViewAt: 1}, c17Op{K: "advance", N: 1, ViewAt: 2})
	depth := 5
	if ev.Thorough() {
		depth = 6
	}
	var count int64
	seqv := make([]c17Op, depth)
	var rec func(d int)
	rec = func(d int) {
		if d == depth {
			c := c17Case{Ops: append([]c17Op{}, seqv...)}
			count++
			v, _ := runC17(c)
			if v != nil {
				if msg := ev.Report(v); msg != "" {
					t.Fatal(msg)
				}
			}
			return
		}
		for _, a := range alphabet {
			seqv[d] = a
			rec(d + 1)
		}
	}
	rec(0)
	col.Cases(count)
	col.NonTrivial(fmt.Sprintf("exhaustive-depth-%d", depth))
	col.NonTrivial("exhaustive-filter")
	col.Exhaust(fmt.Sprintf("filter: all sequences of length %d over a 14-letter alphabet (recv at cur-1..cur+3, other instance, own message, advance 1/2, re-entrant advance, view moved during the drain)", depth), count)
}

func TestC17Random(t *testing.T) {
	col := ev.Get("C17")
	rapid.Check(t, func(t *rapid.T) {
		n := rapid.IntRange(1, 80).Draw(t, "n")
		var c c17Case
		for i := 0; i < n; i++ {
			if rapid.IntRange(0, 4).Draw(t, "adv") == 0 {
				op := c17Op{K: "advance", N: rapid.IntRange(1, 3).Draw(t, "n")}
				if rapid.IntRange(0, 2).Draw(t, "reent") == 0 {
					op.ReentAt = rapid.IntRange(1, 3).Draw(t, "reentat")
				}
				if rapid.IntRange(0, 2).Draw(t, "viewat?") == 0 {
					op.ViewAt = rapid.IntRange(1, 3).Draw(t, "viewat")
				}
				c.Ops = append(c.Ops, op)
			} else {
				c.Ops = append(c.Ops, c17Op{K: "recv", DH: rapid.IntRange(-2, 4).Draw(t, "dh"), Other: rapid.IntRange(0, 7).Draw(t, "other") == 0, Mine: rapid.IntRange(0, 7).Draw(t, "mine") == 0})
			}
		}
		v, reent := runC17(c)
		col.Case()
		if reent {
			col.Class("P:re-entrant-advance-happened")
		}
		adv, fut := 0, 0
		for _, op := range c.Ops {
			if op.K == "advance" {
				adv++
			} else if op.DH > 0 {
				fut++
			}
		}
		if adv > 0 && fut > 0 {
			b, _ := json.Marshal(c)
			col.NonTrivial(string(b))
		}
		col.Sample(func() interface{} { return c })
		if v != nil {
			if msg := ev.Report(v); msg != "" {
				t.Fatal(msg)
			}
		}
	})
}

func init() {
	replayers["C15a"] = func(raw json.RawMessage) *ev.Violation {
		var c c15aCase
		if err := json.Unmarshal(raw, &c); err != nil {
			return &ev.Violation{Property: "C15", Kind: "bad-replay-file", Detail: err.Error()}
		}
		return runC15a(c)
	}
	replayers["C17"] = func(raw json.RawMessage) *ev.Violation {
		var c c17Case
		if err := json.Unmarshal(raw, &c); err != nil {
			return &ev.Violation{Property: "C17", Kind: "bad-replay-file", Detail: err.Error()}
		}
		v, _ := runC17(c)
		return v
	}
}
