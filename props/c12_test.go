package props

import (
	"encoding/binary"
	"encoding/json"
	"fmt"
	"strings"
	"testing"

	"pgregory.net/rapid"

	"verif/ev"
	"verif/sim"
)

// C12 — no received bytes crash, wedge or disable a node (in-process layers; the real-runtime layer is in rt_test.go).

type c12Case struct {
	N       sim.NCase      `json:"n"`       // node state prefix
	Mode    string         `json:"mode"`    // "raw" | "struct"
	Cand    sim.NStep      `json:"cand"`    // the valid message the input is derived from
	Muts    []sim.Mutation `json:"muts"`    // struct mode: field mutations (extreme values)
	ByteOps []byteOp       `json:"byteops"` // raw mode: byte-level surgery on the serialised content
	Raw     []byte         `json:"raw"`     // raw mode with no base message
}

type byteOp struct {
	K   string `json:"k"` // trunc | flip | set32 | insert | drop
	Off int    `json:"off"`
	Val uint32 `json:"val"`
}

func applyByteOps(b []byte, ops []byteOp) []byte {
	b = append([]byte{}, b...)
	for _, op := range ops {
		if len(b) == 0 {
			break
		}
		off := op.Off % len(b)
		switch op.K {
		case "trunc":
			b = b[:off]
		case "flip":
			b[off] ^= 1 << (op.Val % 8)
		case "set32":
			off = off / 4 * 4
			if off+4 <= len(b) {
				binary.LittleEndian.PutUint32(b[off:], op.Val)
			}
		case "insert":
			b = append(b[:off], append([]byte{byte(op.Val), byte(op.Val >> 8), 0, 0}, b[off:]...)...)
		case "drop":
			n := 1 + int(op.Val%8)
			if off+n <= len(b) {
				b = append(b[:off], b[off+n:]...)
			}
		}
	}
	return b
}

func runC12(c c12Case) (*ev.Violation, string) {
	viol := func(kind, format string, a ...interface{}) *ev.Violation {
		return &ev.Violation{Property: "C12", Kind: kind, Detail: fmt.Sprintf(format, a...), Replayer: "C12", Case: c}
	}
	nc := c.N
	nc.Cfg.Focus = "C12"
	nc.Cfg.MaxHeight += 2 // room for a height the input itself completes (a valid COMMIT that reaches quorum) plus the scripted round
	r := sim.RunNPrefix(nc)
	if r.W.Viol != nil {
		return r.W.Viol, "prefix"
	}
	class := "unparsed"
	var content []byte
	var sp *sim.MsgSpec
	if c.Mode == "raw" && c.Cand.Kind == "" {
		content = c.Raw
	} else {
		sp = r.ValidCandidate(c.Cand)
		if sp == nil {
			return nil, "inapplicable"
		}
		for _, mu := range c.Muts {
			r.Mutate(sp, mu)
		}
		content = sp.Build().Content
		if c.Mode == "raw" {
			content = applyByteOps(content, c.ByteOps)
		}
	}
	if m := sim.MetaOf(rawOf(content)); m.OK {
		class = "parsed-as-message"
	}
	var blk = (*sim.MsgSpec)(nil)
	_ = blk
	storeBefore := r.Me.Sto.NLog()
	mp, wp := r.DeliverRaw(content, blockOf(sp))
	if mp != "" {
		return viol("panic-in-main-loop-step", "main loop step panicked on %d content bytes: %s", len(content), mp), class
	}
	if wp != "" {
		return viol("panic-in-worker-step", "worker step panicked on %d content bytes: %s", len(content), wp), class
	}
	if r.W.Viol != nil {
		return r.W.Viol, class
	}
	// a node that is outside its current height's committee moves on by sync only: it must still do that, and then work normally
	if !r.W.InCommittee(r.Me.Idx, r.Me.H()) {
		class += ":out-of-committee"
		h0 := r.Me.H()
		r.SyncPast()
		if r.W.Viol != nil {
			return r.W.Viol, class
		}
		if r.Me.H() != h0+1 {
			return viol("node-ignores-sync-after-input", "after the input the out-of-committee node at height %d did not follow UpdateState to height %d", h0, h0+1), class
		}
	}
	// a careless consumer (approves anything, even a block of the wrong height) that let the hostile proposal in has itself to
	// blame for what the node does with it; such cases are judged for crashes only (above), not for "still commits a valid round"
	adopted := func() bool {
		for _, e := range r.Me.Sto.Log[storeBefore:] {
			if e.Kind == "PP" && e.Stored && e.Sender != string(r.Me.ID) {
				return true
			}
		}
		return false
	}
	if r.Me.BU.AcceptAll && adopted() {
		// ... but a crash stays a crash whoever approved the proposal: the ordinary exchange for what the node now holds
		// (PREPAREs, COMMITs, an election) is still played, and only panics are judged
		r.CommitRound()
		if r.W.Viol == nil {
			r.W.Apply(sim.Action{K: "timeout", Node: r.Me.Idx})
		}
		if v := r.W.Viol; v != nil && strings.HasPrefix(v.Kind, "panic") {
			return v, class + ":careless-consumer-adopted-the-input"
		}
		return nil, class + ":careless-consumer-adopted-the-input"
	}
	// afterwards the node still commits a scripted round, reacts to an election, and to UpdateState
	hBefore := r.Me.H()
	if !r.CommitRound() {
		if r.W.Viol != nil {
			return r.W.Viol, class
		}
		return viol("node-does-not-commit-after-input", "after the input the node at (h=%d,v=%d) does not commit a scripted valid round", r.Me.H(), r.Me.V()), class
	}
	if r.Me.H() != hBefore+1 {
		return viol("node-height-wrong-after-input", "after the scripted round the node is at height %d, want %d", r.Me.H(), hBefore+1), class
	}
	v0 := r.Me.V()
	r.W.Apply(sim.Action{K: "timeout", Node: r.Me.Idx})
	if r.W.Viol != nil {
		return r.W.Viol, class
	}
	if r.Me.V() != v0+1 {
		return viol("node-ignores-election-after-input", "after the input an election trigger did not move the node from view %d", v0), class
	}
	return nil, class
}

func TestC12N(t *testing.T) {
	col := ev.Get("C12")
	kinds := []string{"PP", "P", "C", "VC", "NV"}
	extreme := []string{"inst", "height", "view", "hash", "type", "union", "sender", "sig", "share", "block", "proof-drop", "proof-view", "proof-below-quorum",
		"proof-dup-preparer", "proof-height", "proof-inst", "votes-drop", "votes-dup", "votes-view", "votes-height", "votes-unsigned", "nvpp-view", "nvpp-height", "nvpp-hash", "nv-other-block", "proof-add", "proof-types"}
	rapid.Check(t, func(t *rapid.T) {
		o := nOpts{Focus: "C12", Kinds: kinds, MaxCands: 1, Mutations: extreme}
		nc := drawNCase(t, o)
		// strip the candidate steps: C12 delivers its own input
		var steps []sim.NStep
		for _, st := range nc.Steps {
			if st.K != "cand" {
				steps = append(steps, st)
			}
		}
		nc.Steps = steps
		if rapid.IntRange(0, 2).Draw(t, "careless-consumer") == 0 {
			nc.Cfg.AcceptAllAt = []int{nc.Me} // this node's ValidateBlockProposal approves anything, even a missing block
		}
		if nc.Cfg.N >= 5 && rapid.IntRange(0, 5).Draw(t, "out-of-committee") == 0 {
			nc.Cfg.Absent, nc.Cfg.AbsentH, nc.Cfg.MaxHeight = []int{nc.Me}, 1, nc.Cfg.MaxHeight+1 // the node is not a member of its current height's committee (one more height: sync, then a round)
		}
		c := c12Case{N: nc}
		c.Mode = rapid.SampledFrom([]string{"raw", "raw", "struct"}).Draw(t, "mode")
		if c.Mode == "raw" && rapid.IntRange(0, 4).Draw(t, "nobase") == 0 {
			c.Raw = rapid.SliceOfN(rapid.Byte(), 0, 64).Draw(t, "rawbytes")
		} else {
			c.Cand = sim.NStep{K: "cand", Kind: rapid.SampledFrom(kinds).Draw(t, "kind"), From: rapid.IntRange(0, 8).Draw(t, "from"), A: rapid.IntRange(0, 15).Draw(t, "a"), B: rapid.IntRange(0, 15).Draw(t, "b")}
			if c.Mode == "struct" {
				for k := rapid.IntRange(1, 3).Draw(t, "nmut"); k > 0; k-- {
					c.Muts = append(c.Muts, sim.Mutation{K: rapid.SampledFrom(extreme).Draw(t, "mut"), A: rapid.IntRange(0, 40).Draw(t, "mutA"), Resign: rapid.Bool().Draw(t, "resign")})
				}
			} else {
				for k := rapid.IntRange(1, 3).Draw(t, "nops"); k > 0; k-- {
					c.ByteOps = append(c.ByteOps, byteOp{K: rapid.SampledFrom([]string{"trunc", "flip", "set32", "set32", "insert", "drop"}).Draw(t, "op"),
						Off: rapid.IntRange(0, 4096).Draw(t, "off"), Val: rapid.SampledFrom([]uint32{0, 1, 3, 4, 0x7fffffff, 0x80000000, 0xffffffff, 0xfffffffc, 17, 255}).Draw(t, "val")})
				}
			}
		}
		v, class := runC12(c)
		col.Case()
		col.Class("N:" + c.Mode + ":" + class)
		if class == "parsed-as-message" || c.Mode == "struct" {
			b, _ := json.Marshal(c)
			col.NonTrivial(string(b))
		}
		col.Sample(func() interface{} { return c })
		if v != nil {
			v.Replayer = "C12"
			v.Case = c
			if msg := ev.Report(v); msg != "" {
				t.Fatal(msg)
			}
		}
	})
}

func init() {
	replayers["C12"] = func(raw json.RawMessage) *ev.Violation {
		var c c12Case
		if err := json.Unmarshal(raw, &c); err != nil {
			return &ev.Violation{Property: "C12", Kind: "bad-replay-file", Detail: err.Error()}
		}
		v, _ := runC12(c)
		return v
	}
}
