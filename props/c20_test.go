package props

import (
	"bytes"
	"encoding/json"
	"fmt"
	"math"
	"testing"

	"github.com/orbs-network/lean-helix-go/services/blockproof"
	"github.com/orbs-network/lean-helix-go/services/interfaces"
	"github.com/orbs-network/lean-helix-go/services/messagesfactory"
	"github.com/orbs-network/lean-helix-go/services/preparedmessages"
	"github.com/orbs-network/lean-helix-go/spec/types/go/primitives"
	"github.com/orbs-network/lean-helix-go/spec/types/go/protocol"
	"pgregory.net/rapid"

	"verif/ev"
	"verif/fakes"
)

// C20 — wire format round trip preserves every field and every signature.

type c20Case struct {
	Kind      string   `json:"kind"` // PP | P | C | VC | NV | PROOF
	Inst      uint64   `json:"inst"`
	H         uint64   `json:"h"`
	V         uint64   `json:"v"`
	Hash      []byte   `json:"hash"`
	IDs       [][]byte `json:"ids"` // member ids (first = the author); pairwise distinct
	Block     bool     `json:"block"`
	ProofV    uint64   `json:"proof_v"`    // view of the prepared proof (VC / NV votes)
	NPrep     int      `json:"n_prep"`     // number of preparers in proofs
	NVotes    int      `json:"n_votes"`    // NV: number of votes
	VoteProof []bool   `json:"vote_proof"` // NV: which votes carry a proof
	Seed      uint64   `json:"seed"`
	SigLen    int      `json:"sig_len"`   // length of every signature (-1 = natural)
	ShareLen  int      `json:"share_len"` // length of every random seed share (-1 = natural)
}

type c20env struct {
	reg *fakes.Registry
	fac map[string]*messagesfactory.MessageFactory
	km  map[string]*fakes.KeyManager
	c   c20Case
}

func newC20env(c c20Case) *c20env {
	e := &c20env{reg: fakes.NewRegistry(), fac: map[string]*messagesfactory.MessageFactory{}, km: map[string]*fakes.KeyManager{}, c: c}
	e.reg.SigLen, e.reg.ShareLen = c.SigLen, c.ShareLen
	for _, id := range c.IDs {
		e.reg.Add(id)
		km := &fakes.KeyManager{Reg: e.reg, Me: id}
		e.km[string(id)] = km
		e.fac[string(id)] = messagesfactory.NewMessageFactory(primitives.InstanceId(c.Inst), km, id, c.Seed)
	}
	return e
}

func (e *c20env) f(i int) *messagesfactory.MessageFactory {
	return e.fac[string(e.c.IDs[i%len(e.c.IDs)])]
}

func (e *c20env) verify(h primitives.BlockHeight, content []byte, s *protocol.SenderSignature) bool {
	return (&fakes.KeyManager{Reg: e.reg}).VerifyConsensusMessage(h, content, s) == nil
}

func refEq(a, b *protocol.BlockRef) bool {
	return a.MessageType() == b.MessageType() && a.InstanceId() == b.InstanceId() && a.BlockHeight() == b.BlockHeight() && a.View() == b.View() && a.BlockHash().Equal(b.BlockHash())
}

func sigEq(a, b *protocol.SenderSignature) bool {
	return a.MemberId().Equal(b.MemberId()) && a.Signature().Equal(b.Signature())
}

func (e *c20env) checkProof(orig, got *protocol.PreparedProof, h primitives.BlockHeight) string {
	oh, gh := orig != nil && len(orig.Raw()) > 0, got != nil && len(got.Raw()) > 0
	if oh != gh {
		return "prepared proof presence changed"
	}
	if !oh {
		return ""
	}
	if !refEq(orig.PreprepareBlockRef(), got.PreprepareBlockRef()) || !refEq(orig.PrepareBlockRef(), got.PrepareBlockRef()) || !sigEq(orig.PreprepareSender(), got.PreprepareSender()) {
		return "prepared proof block references / preprepare sender changed"
	}
	if !e.verify(h, got.PreprepareBlockRef().Raw(), got.PreprepareSender()) {
		return "prepared proof: preprepare signature no longer verifies over the re-read bytes"
	}
	oi, gi := orig.PrepareSendersIterator(), got.PrepareSendersIterator()
	n := 0
	for oi.HasNext() {
		if !gi.HasNext() {
			return "prepared proof lost a prepare sender"
		}
		o, g := oi.NextPrepareSenders(), gi.NextPrepareSenders()
		if !sigEq(o, g) {
			return "prepared proof prepare sender changed"
		}
		if !e.verify(h, got.PrepareBlockRef().Raw(), g) {
			return "prepared proof: prepare signature no longer verifies over the re-read bytes"
		}
		n++
	}
	if gi.HasNext() {
		return "prepared proof gained a prepare sender"
	}
	return ""
}

func (e *c20env) checkVote(orig, got *protocol.ViewChangeMessageContent) string {
	oh, gh := orig.SignedHeader(), got.SignedHeader()
	if oh.MessageType() != gh.MessageType() || oh.InstanceId() != gh.InstanceId() || oh.BlockHeight() != gh.BlockHeight() || oh.View() != gh.View() {
		return "vote header fields changed"
	}
	if !sigEq(orig.Sender(), got.Sender()) {
		return "vote sender changed"
	}
	if !e.verify(gh.BlockHeight(), gh.Raw(), got.Sender()) {
		return "vote signature no longer verifies over the re-read (re-encoded) header"
	}
	return e.checkProof(oh.PreparedProof(), gh.PreparedProof(), gh.BlockHeight())
}

func runC20(c c20Case) *ev.Violation {
	viol := func(kind, format string, a ...interface{}) *ev.Violation {
		return &ev.Violation{Property: "C20", Kind: kind, Detail: fmt.Sprintf(format, a...), Replayer: "C20", Case: c}
	}
	e := newC20env(c)
	h, v := primitives.BlockHeight(c.H), primitives.View(c.V)
	var block interfaces.Block
	if c.Block {
		block = &fakes.Block{H: h, ID: "b", Valid: true}
	}
	prepared := func(pv primitives.View) *preparedmessages.PreparedMessages {
		pm := &preparedmessages.PreparedMessages{PreprepareMessage: e.f(0).CreatePreprepareMessage(h, pv, block, c.Hash)}
		for k := 0; k < c.NPrep; k++ {
			pm.PrepareMessages = append(pm.PrepareMessages, e.f(1+k).CreatePrepareMessage(h, pv, c.Hash))
		}
		if c.NPrep == 0 {
			pm.PrepareMessages = nil
		}
		return pm
	}
	var msg interfaces.ConsensusMessage
	var vcms []*interfaces.ViewChangeMessage
	switch c.Kind {
	case "PP":
		msg = e.f(0).CreatePreprepareMessage(h, v, block, c.Hash)
	case "P":
		msg = e.f(0).CreatePrepareMessage(h, v, c.Hash)
	case "C":
		msg = e.f(0).CreateCommitMessage(h, v, c.Hash)
	case "VC":
		var pm *preparedmessages.PreparedMessages
		if c.NPrep >= 0 && c.ProofV < c.V {
			pm = prepared(primitives.View(c.ProofV))
		}
		msg = e.f(0).CreateViewChangeMessage(h, v, pm)
	case "NV":
		for k := 0; k < c.NVotes; k++ {
			var pm *preparedmessages.PreparedMessages
			if k < len(c.VoteProof) && c.VoteProof[k] && c.ProofV < c.V {
				pm = prepared(primitives.View(c.ProofV))
			}
			vcms = append(vcms, e.f(1+k).CreateViewChangeMessage(h, v, pm))
		}
		ppb := e.f(0).CreatePreprepareMessageContentBuilder(h, v, block, c.Hash)
		msg = e.f(0).CreateNewViewMessage(h, v, ppb, interfaces.ExtractConfirmationsFromViewChangeMessages(vcms), block)
	case "PROOF":
		var cms []*interfaces.CommitMessage
		for k := 0; k < 1+c.NPrep; k++ {
			cms = append(cms, e.f(k).CreateCommitMessage(h, v, c.Hash))
		}
		proof := blockproof.GenerateLeanHelixBlockProof(e.km[string(c.IDs[0])], cms)
		got := protocol.BlockProofReader(append([]byte{}, proof.Raw()...))
		r := got.BlockRef()
		if r.MessageType() != protocol.LEAN_HELIX_COMMIT || r.InstanceId() != primitives.InstanceId(c.Inst) || r.BlockHeight() != h || r.View() != v || !r.BlockHash().Equal(c.Hash) {
			return viol("proof-blockref-changed", "block proof reference differs from the commits it was generated from")
		}
		it := got.NodesIterator()
		k := 0
		for it.HasNext() {
			s := it.NextNodes()
			if k >= len(cms) || !sigEq(s, cms[k].Content().Sender()) {
				return viol("proof-signer-changed", "block proof signer %d differs from the commit message", k)
			}
			if !e.verify(h, r.Raw(), s) {
				return viol("proof-signature-does-not-verify", "block proof: signature of signer %d does not verify over proof.BlockRef().Raw()", k)
			}
			k++
		}
		if k != len(cms) {
			return viol("proof-signer-count", "block proof has %d signers for %d commits", k, len(cms))
		}
		if got.String() != protocol.BlockProofReader(proof.Raw()).String() {
			return viol("parse-not-deterministic", "parsing a copy of the proof bytes gives different accessors")
		}
		return nil
	}
	raw := msg.ToConsensusRawMessage()
	parsed := interfaces.ToConsensusMessage(&interfaces.ConsensusRawMessage{Content: append([]byte{}, raw.Content...), Block: raw.Block})
	if parsed == nil {
		return viol("roundtrip-unparseable", "a %s built by the factory does not parse back", c.Kind)
	}
	if fmt.Sprintf("%T", parsed) != fmt.Sprintf("%T", msg) {
		return viol("roundtrip-type-changed", "%T parsed back as %T", msg, parsed)
	}
	if parsed.MessageType() != msg.MessageType() || parsed.InstanceId() != msg.InstanceId() || parsed.BlockHeight() != msg.BlockHeight() || parsed.View() != msg.View() || !parsed.SenderMemberId().Equal(msg.SenderMemberId()) {
		return viol("roundtrip-field-changed", "%s: type/instance/height/view/sender differ after the round trip", c.Kind)
	}
	if parsed.InstanceId() != primitives.InstanceId(c.Inst) || parsed.BlockHeight() != h || parsed.View() != v || !parsed.SenderMemberId().Equal(c.IDs[0]) {
		return viol("roundtrip-field-wrong", "%s: parsed fields differ from the values given to the factory", c.Kind)
	}
	if !bytes.Equal(parsed.Raw(), msg.Raw()) {
		return viol("roundtrip-bytes-changed", "%s: content bytes differ after the round trip", c.Kind)
	}
	// determinism, independence of producer
	again := interfaces.ToConsensusMessage(&interfaces.ConsensusRawMessage{Content: append([]byte{}, raw.Content...), Block: raw.Block})
	if again.String() != parsed.String() {
		return viol("parse-not-deterministic", "parsing the same bytes twice gives different accessors")
	}
	rebuilt := protocol.LeanhelixContentBuilderFromRaw(raw.Content).Build().Raw()
	if rb := interfaces.ToConsensusMessage(&interfaces.ConsensusRawMessage{Content: rebuilt, Block: raw.Block}); rb == nil || rb.String() != parsed.String() {
		return viol("parse-depends-on-producer", "bytes re-produced through BuilderFromRaw parse differently")
	}
	// the result depends on the bytes (and block) handed in at the time of the call, not on what the same raw message
	// structure held earlier: re-use one structure for another PREPARE of the same encoded length, and attach a block afterwards
	if c.Kind == "P" || c.Kind == "PP" {
		other := e.f(0).CreatePrepareMessage(h, v+1, c.Hash).ToConsensusRawMessage()
		first := e.f(0).CreatePrepareMessage(h, v, c.Hash).ToConsensusRawMessage()
		reused := &interfaces.ConsensusRawMessage{Content: first.Content}
		if m1 := interfaces.ToConsensusMessage(reused); m1 == nil || m1.View() != v {
			return viol("parse-depends-on-history", "PREPARE(v) parsed wrongly")
		}
		reused.Content = other.Content
		if m2 := interfaces.ToConsensusMessage(reused); m2 == nil || m2.View() != v+1 {
			return viol("parse-depends-on-history", "re-using a raw message structure for other bytes of the same length returns the earlier parse result")
		}
		ppraw := e.f(0).CreatePreprepareMessage(h, v, nil, c.Hash).ToConsensusRawMessage()
		r2 := &interfaces.ConsensusRawMessage{Content: ppraw.Content}
		_ = interfaces.ToConsensusMessage(r2)
		blk2 := &fakes.Block{H: h, ID: "late", Valid: true}
		r2.Block = blk2
		if m3, ok := interfaces.ToConsensusMessage(r2).(*interfaces.PreprepareMessage); !ok || m3.Block() != blk2 {
			return viol("parse-depends-on-history", "a block attached to a raw message after a first parse is not seen by the next parse")
		}
	}
	switch p := parsed.(type) {
	case *interfaces.PreprepareMessage:
		o := msg.(*interfaces.PreprepareMessage)
		if !refEq(o.Content().SignedHeader(), p.Content().SignedHeader()) || !p.Content().SignedHeader().BlockHash().Equal(c.Hash) || p.Block() != block {
			return viol("roundtrip-field-changed", "PREPREPARE hash / block changed")
		}
		if !e.verify(h, p.Content().SignedHeader().Raw(), p.Content().Sender()) {
			return viol("signature-does-not-verify-after-roundtrip", "PREPREPARE signature does not verify over the re-read header")
		}
	case *interfaces.PrepareMessage:
		if !p.Content().SignedHeader().BlockHash().Equal(c.Hash) || !e.verify(h, p.Content().SignedHeader().Raw(), p.Content().Sender()) {
			return viol("signature-does-not-verify-after-roundtrip", "PREPARE hash changed or signature does not verify over the re-read header")
		}
	case *interfaces.CommitMessage:
		o := msg.(*interfaces.CommitMessage)
		if !p.Content().SignedHeader().BlockHash().Equal(c.Hash) || !e.verify(h, p.Content().SignedHeader().Raw(), p.Content().Sender()) {
			return viol("signature-does-not-verify-after-roundtrip", "COMMIT hash changed or signature does not verify over the re-read header")
		}
		if !p.Content().Share().Equal(o.Content().Share()) {
			return viol("roundtrip-field-changed", "COMMIT share changed")
		}
	case *interfaces.ViewChangeMessage:
		o := msg.(*interfaces.ViewChangeMessage)
		if why := e.checkVote(o.Content(), p.Content()); why != "" {
			return viol("vote-roundtrip", "VIEW_CHANGE: %s", why)
		}
		if p.Block() != o.Block() {
			return viol("roundtrip-field-changed", "VIEW_CHANGE block changed")
		}
	case *interfaces.NewViewMessage:
		if !e.verify(h, p.Content().SignedHeader().Raw(), p.Content().Sender()) {
			return viol("signature-does-not-verify-after-roundtrip", "NEW_VIEW signature does not verify over the re-read header")
		}
		pp := p.Content().Message()
		if !pp.SignedHeader().BlockHash().Equal(c.Hash) || pp.SignedHeader().View() != v || pp.SignedHeader().BlockHeight() != h || !e.verify(h, pp.SignedHeader().Raw(), pp.Sender()) {
			return viol("signature-does-not-verify-after-roundtrip", "NEW_VIEW embedded PREPREPARE changed or its signature does not verify over the re-read bytes")
		}
		it := p.Content().SignedHeader().ViewChangeConfirmationsIterator()
		k := 0
		for it.HasNext() {
			vote := it.NextViewChangeConfirmations()
			if k >= len(vcms) {
				return viol("vote-roundtrip", "NEW_VIEW gained a vote")
			}
			if why := e.checkVote(vcms[k].Content(), vote); why != "" {
				return viol("vote-roundtrip", "NEW_VIEW vote %d: %s", k, why)
			}
			k++
		}
		if k != len(vcms) {
			return viol("vote-roundtrip", "NEW_VIEW embeds %d votes, built from %d", k, len(vcms))
		}
		if p.Block() != block {
			return viol("roundtrip-field-changed", "NEW_VIEW block changed")
		}
	}
	return nil
}

func TestC20(t *testing.T) {
	col := ev.Get("C20")
	u64 := rapid.OneOf(rapid.Uint64Range(0, 5), rapid.SampledFrom([]uint64{1 << 31, 1 << 32, 1<<63 - 1, 1 << 63, math.MaxUint64 - 1, math.MaxUint64}), rapid.Uint64())
	blen := rapid.OneOf(rapid.IntRange(0, 3), rapid.IntRange(0, 40), rapid.SampledFrom([]int{0, 1, 20, 32, 127, 128, 129, 255, 256}))
	rapid.Check(t, func(t *rapid.T) {
		c := c20Case{Kind: rapid.SampledFrom([]string{"PP", "P", "C", "VC", "VC", "NV", "NV", "PROOF"}).Draw(t, "kind"), Inst: u64.Draw(t, "inst"), H: u64.Draw(t, "h"), V: u64.Draw(t, "v"),
			Block: rapid.Bool().Draw(t, "block"), Seed: u64.Draw(t, "seed")}
		c.SigLen, c.ShareLen = -1, -1
		if rapid.Bool().Draw(t, "siglens") {
			c.SigLen, c.ShareLen = blen.Draw(t, "siglen"), blen.Draw(t, "sharelen")
		}
		c.Hash = rapid.SliceOfN(rapid.Byte(), blen.Draw(t, "hlen"), -1).Draw(t, "hash")
		if len(c.Hash) > 256 {
			c.Hash = c.Hash[:256]
		}
		c.NPrep = rapid.IntRange(0, 20).Draw(t, "nprep")
		c.NVotes = rapid.IntRange(0, 20).Draw(t, "nvotes")
		nids := 2 + maxI(c.NPrep, c.NVotes)
		seen := map[string]bool{}
		for len(c.IDs) < nids {
			id := rapid.SliceOfN(rapid.Byte(), blen.Draw(t, "idlen"), -1).Draw(t, "id")
			if len(id) > 256 {
				id = id[:256]
			}
			id = append(id, byte(len(c.IDs)), byte(len(c.IDs)>>8)) // keep ids pairwise distinct by construction
			if len(c.IDs) == 0 && rapid.IntRange(0, 9).Draw(t, "emptyid") == 0 {
				id = []byte{}
			}
			if seen[string(id)] {
				continue
			}
			seen[string(id)] = true
			c.IDs = append(c.IDs, id)
		}
		if c.V > 0 {
			c.ProofV = rapid.Uint64Range(0, c.V-1).Draw(t, "proofv")
			if rapid.Bool().Draw(t, "proofv0") {
				c.ProofV = 0
			}
		} else {
			c.ProofV = 1 // no proof possible below view 0
		}
		for k := 0; k < c.NVotes; k++ {
			c.VoteProof = append(c.VoteProof, rapid.Bool().Draw(t, "vp"))
		}
		col.Case()
		col.Class("P:" + c.Kind)
		nt := len(c.Hash) == 0 || len(c.Hash) >= 128 || c.NPrep >= 2 || c.NVotes >= 2 || c.H >= 1<<63 || c.V >= 1<<63 || c.Inst >= 1<<63
		for _, id := range c.IDs[:1] {
			if len(id) == 0 || len(id) >= 128 {
				nt = true
			}
		}
		if nt {
			b, _ := json.Marshal(c)
			col.NonTrivial(string(b))
		}
		col.Sample(func() interface{} {
			s := c
			if len(s.IDs) > 3 {
				s.IDs = s.IDs[:3]
			}
			return s
		})
		var v *ev.Violation
		func() {
			defer func() {
				if r := recover(); r != nil {
					v = &ev.Violation{Property: "C20", Kind: "roundtrip-panic", Detail: fmt.Sprint(r), Replayer: "C20", Case: c}
				}
			}()
			v = runC20(c)
		}()
		if v != nil {
			if msg := ev.Report(v); msg != "" {
				t.Fatal(msg)
			}
		}
	})
}

func maxI(a, b int) int {
	if a > b {
		return a
	}
	return b
}

func init() {
	replayers["C20"] = func(raw json.RawMessage) *ev.Violation {
		var c c20Case
		if err := json.Unmarshal(raw, &c); err != nil {
			return &ev.Violation{Property: "C20", Kind: "bad-replay-file", Detail: err.Error()}
		}
		return runC20(c)
	}
}
