package props

import (
	"fmt"
	"testing"

	"pgregory.net/rapid"

	"verif/ev"
	"verif/sim"
)

var allStrategies = []string{"pp", "prepare", "commit", "vc", "nv", "nv", "replay", "support", "support", "liftall", "follow", "votes"}

// presets: parameter vectors of NEW_VIEW assemblies that are dangerous if some check is missing
var nvPresets = [][]int{
	{1, 0, 0, 0, 1, 0}, // forged votes in correct members' names, fresh block
	{1, 0, 1, 0, 1, 0},
	{0, 0, 0, 0, 1, 0}, // genuine votes without proofs only (lock ignored if they still reach quorum), fresh block
	{3, 0, 1, 0, 1, 0},
	{0, 2, 9, 0, 1, 0}, // own vote with a lower genuine proof, genuine higher ones dropped, re-propose the lower block
	{0, 3, 0, 0, 0, 0}, // forged proof
	{2, 0, 0, 0, 0, 0}, // outsider votes
	{0, 1, 9, 1, 0, 0}, // proven block attached, embedded header names another hash
	{0, 1, 9, 0, 0, 0}, // fully honest-looking NEW_VIEW
	{0, 0, 2, 0, 1, 0}, // consumer-invalid fresh block
	{0, 1, 2, 0, 0, 0}, // consumer-invalid block under cover of a lock
	{0, 4, 2, 0, 1, 0}, // own vote: genuine PREPARE signatures under a PREPREPARE reference for another (consumer-invalid) block, which is re-proposed
	{0, 4, 2, 0, 0, 0},
	{0, 4, 0, 0, 1, 0}, // ... for another consumer-valid block
	{0, 5, 9, 0, 0, 0}, // own vote: a lower genuine certificate under a PREPREPARE reference claiming a later view; its block is re-proposed
	{0, 5, 9, 0, 0, 1},
	{0, 4, 0, 0, 0, 1}, // ... genuine votes (with their proofs) kept, the adversary's vote first
	{0, 4, 1, 0, 0, 1},
	{0, 3, 0, 0, 0, 1},
	{0, 2, 8, 0, 0, 0}, // several proofs among the votes, proposal = block of the lowest one
	{3, 0, 8, 0, 0, 0},
	{0, 1, 8, 0, 0, 0},
	{0, 1, 9, 5, 0, 0}, // the proven hash in the signed proposal, another block object attached
	{3, 0, 9, 5, 0, 0},
	{4, 0, 0, 0, 0, 0}, // votes of the previous height
	{4, 1, 9, 0, 0, 0},
	{0, 6, 2, 0, 0, 0}, // own vote: certificate for another (consumer-invalid) block under PREPARE signatures lifted from the block really prepared
	{0, 6, 0, 0, 1, 1},
	{0, 6, 2, 0, 1, 1},
	{0, 6, 2, 0, 0, 1},
	{0, 0, 0, 4, 0, 0}, // embedded proposal in the leader's name with a signature that is not the leader's
	{0, 1, 9, 4, 0, 7},
	{3, 0, 1, 4, 1, 0},
}

// drawByz draws one adversarial injection against the live world (nil if the adversary owns no key).
func drawByz(t *rapid.T, w *sim.World, o simOpts) *sim.ByzSpec {
	var owned []int
	owned = append(owned, w.Cfg.Byz...)
	for i := w.Cfg.N; i < len(w.IDs); i++ {
		owned = append(owned, i)
	}
	live := w.CorrectLive()
	if len(owned) == 0 || len(live) == 0 {
		return nil
	}
	strats := o.Strategies
	if len(strats) == 0 {
		strats = allStrategies
	}
	strat := rapid.SampledFrom(strats).Draw(t, "strat")
	// height and view near where some correct node is
	ref := w.Nodes[rapid.SampledFrom(live).Draw(t, "near")]
	h := ref.H()
	if h == 0 {
		h = 1
	}
	if rapid.IntRange(0, 9).Draw(t, "h+1") == 0 {
		h++
	}
	v := ref.V()
	switch rapid.IntRange(0, 5).Draw(t, "vmode") {
	case 0:
		v = 0
	case 1, 2:
		v++
	case 3:
		v += uint64(rapid.IntRange(0, 3).Draw(t, "dv"))
	}
	as := rapid.SampledFrom(owned).Draw(t, "as")
	// prefer the legitimate leader when the adversary owns it (otherwise the message is trivially rejected)
	if strat == "pp" || strat == "nv" {
		if l := w.LeaderIdx(h, v); w.IsByz(l) && rapid.IntRange(0, 9).Draw(t, "asleader") < 9 {
			as = l
		} else if len(w.Cfg.Byz) > 0 {
			// find a nearby view that a Byzantine member leads
			for dv := uint64(0); dv < uint64(w.Cfg.N); dv++ {
				if l := w.LeaderIdx(h, v+dv); w.IsByz(l) && (strat == "pp" || v+dv > 0) {
					if rapid.IntRange(0, 9).Draw(t, "shiftview") < 8 {
						v, as = v+dv, l
					}
					break
				}
			}
		}
	}
	to := uint16(1<<uint(w.Cfg.N) - 1)
	if rapid.Bool().Draw(t, "tosome") {
		to = uint16(rapid.IntRange(1, 1<<uint(w.Cfg.N)-1).Draw(t, "to"))
	}
	np := 6
	p := make([]int, np)
	for i := range p {
		p[i] = rapid.IntRange(0, 9).Draw(t, "p")
	}
	if strat == "replay" {
		p[0] = rapid.IntRange(0, 1<<20).Draw(t, "seenidx")
		p[1] = rapid.IntRange(0, 4).Draw(t, "rmode")
	}
	if strat == "nv" || strat == "vc" {
		p[0] = rapid.IntRange(0, 4).Draw(t, "mode0")
		p[1] = rapid.IntRange(0, 6).Draw(t, "mode1")
		if strat == "nv" {
			p[2] = rapid.SampledFrom([]int{0, 0, 1, 2, 3, 4, 5, 8, 9, 9, 9}).Draw(t, "proposal")
			p[3] = rapid.SampledFrom([]int{0, 0, 0, 0, 1, 2, 3, 4, 5}).Draw(t, "ppmode")
			p[4] = rapid.SampledFrom([]int{0, 0, 0, 1}).Draw(t, "dropproofs")
		}
	}
	if strat == "commit" {
		p[1] = rapid.SampledFrom([]int{0, 0, 0, 1, 2}).Draw(t, "sharemode")
	}
	if strat == "pp" {
		p[1] = rapid.SampledFrom([]int{0, 0, 0, 0, 1}).Draw(t, "hashmode")
	}
	if strat == "nv" && rapid.Bool().Draw(t, "preset?") {
		p = append([]int{}, rapid.SampledFrom(nvPresets).Draw(t, "preset")...)
	}
	spec := &sim.ByzSpec{Strat: strat, As: as, To: to, H: h, V: v, P: p}
	if strat == "nv" {
		spec.Tailor = rapid.IntRange(0, 4).Draw(t, "tailor") == 0
	}
	// now and then everything is signed for ANOTHER instance id (cross-chain replay), preferably for a future height (cache path)
	foreignEvery := 12
	if o.Focus == "C03" || o.Focus == "C08" || o.Focus == "C17" || o.Focus == "C07" {
		foreignEvery = 4
	}
	if rapid.IntRange(0, foreignEvery-1).Draw(t, "foreign-instance") == 0 {
		spec.Inst = uint64(rapid.IntRange(1, 2).Draw(t, "instoff"))
		spec.HdrOnly = strat == "nv" && rapid.Bool().Draw(t, "foreign-header-only")
		if rapid.Bool().Draw(t, "foreign-future") && spec.H < w.Cfg.MaxHeight {
			spec.H++
			spec.V = 0
			// aim at a laggard when there is one: the height right above the lowest correct node, which the others have already reached
			// (its random seed is known, so a COMMIT share for it can be genuine) - the message sits in the laggard's future cache
			minH := uint64(1 << 62)
			for _, i := range live {
				if x := w.Nodes[i].H(); x < minH {
					minH = x
				}
			}
			if minH >= 1 && minH < w.Cfg.MaxHeight && minH+1 != spec.H && rapid.IntRange(0, 2).Draw(t, "foreign-laggard") > 0 {
				spec.H = minH + 1
			}
		}
	}
	return spec
}

// C01 — agreement.
func TestC01(t *testing.T) {
	col := ev.Get("C01")
	o := simOpts{Focus: "C01", MaxN: 7, MaxHeight: 3, MaxSteps: 150, ByzBias: 85}
	rapid.Check(t, func(t *rapid.T) {
		w := runSimCase(t, o)
		recordSim(col, w)
		if w.Obs.Commits >= 1 && (w.Obs.MaxView > 0 || w.Obs.ByzStored > 0) {
			col.NonTrivialHash(traceSig(w))
			col.Class("nontrivial")
		}
		reportSim(t, w)
	})
}

var _ = fmt.Sprint

func simProperty(t *testing.T, o simOpts, nontrivial func(w *sim.World) bool) {
	col := ev.Get(o.Focus)
	rapid.Check(t, func(t *rapid.T) {
		w := runSimCase(t, o)
		recordSim(col, w)
		if nontrivial(w) {
			col.NonTrivialHash(traceSig(w))
			col.Class("nontrivial")
		}
		reportSim(t, w)
	})
}

// C03 — every committed (block, proof) passes strict validation on a peer and the reference validator.
func TestC03(t *testing.T) {
	o := simOpts{Focus: "C03", MaxN: 7, MaxHeight: 3, MaxSteps: 150, ByzBias: 90,
		Strategies: []string{"commit", "commit", "commit", "replay", "replay", "nv", "pp", "prepare", "support", "vc"}}
	simProperty(t, o, func(w *sim.World) bool { return w.Mon.Facts["c03-nontrivial"] > 0 })
}

// C04 — external validity.
func TestC04(t *testing.T) {
	o := simOpts{Focus: "C04", MaxN: 7, MaxHeight: 3, MaxSteps: 150, ByzBias: 95,
		Strategies: []string{"pp", "pp", "nv", "nv", "nv", "support", "support", "vc", "commit", "prepare", "replay"}}
	simProperty(t, o, func(w *sim.World) bool { return w.Mon.Facts["invalid-proposal-delivered"] > 0 && w.Obs.Commits > 0 })
}

// C10 — no equivocation, phase order.
func TestC10(t *testing.T) {
	o := simOpts{Focus: "C10", MaxN: 7, MaxHeight: 3, MaxSteps: 200, ByzBias: 80,
		Strategies: []string{"pp", "pp", "pp", "replay", "replay", "nv", "commit", "prepare", "support", "vc"}}
	simProperty(t, o, func(w *sim.World) bool {
		return w.Mon.Facts["two-proposals"] > 0 || w.Mon.Facts["dup"] > 0 || w.Mon.Facts["commit-quorum-before-prepared"] > 0 || w.Obs.Strategies["replay"] > 0
	})
}

// C10 on one real node (engine N): the scripted scenarios (early message for an upcoming view then NEW_VIEW, prepares, timeouts;
// next-height candidates through the cache) and mutated candidates, judged by the same send-stream oracle.
func TestC10N(t *testing.T) {
	nProperty(t, nOpts{Focus: "C10", Kinds: []string{"PL", "PL", "P", "P", "C", "C", "PP", "NV", "VC"}, MaxCands: 5, Scenarios: true})
}

// Debug: all monitors armed at once.
func TestSimAll(t *testing.T) {
	o := simOpts{Focus: "ALL", MaxN: 7, MaxHeight: 3, MaxSteps: 150, ByzBias: 85}
	simProperty(t, o, func(w *sim.World) bool { return w.Obs.Commits > 0 })
}

// C09 (engine S part) — view change carries the lock: monitors on every VIEW_CHANGE / NEW_VIEW a correct node emits.
func TestC09S(t *testing.T) {
	o := simOpts{Focus: "C09", MaxN: 7, MaxHeight: 2, MaxSteps: 150, ByzBias: 80,
		Strategies: []string{"vc", "vc", "vc", "prepare", "pp", "nv", "commit", "replay", "support"}}
	simProperty(t, o, func(w *sim.World) bool {
		return w.Mon.Facts["vc-while-prepared"] > 0 || w.Mon.Facts["nv-emitted-with-proof"] > 0
	})
}

// C11 — what a correct node emits, correct peers in a matching state accept (judged at every delivery).
func TestC11(t *testing.T) {
	o := simOpts{Focus: "C11", MaxN: 7, MaxHeight: 2, MaxSteps: 150, ByzBias: 85,
		Strategies: []string{"vc", "vc", "vc", "prepare", "prepare", "commit", "pp", "nv", "replay", "support"}}
	simProperty(t, o, func(w *sim.World) bool { return w.Mon.Facts["c11-judged-after-foreign-input"] > 0 })
}

// C07 / C08 as monitors on every delivery of engine S (engine N has its own tests).
func TestC07S(t *testing.T) {
	o := simOpts{Focus: "C07", MaxN: 7, MaxHeight: 2, MaxSteps: 150, ByzBias: 95,
		Strategies: []string{"nv", "nv", "nv", "nv", "vc", "pp", "replay", "support", "prepare"}}
	simProperty(t, o, func(w *sim.World) bool { return w.Mon.Facts["nv-accepted"] > 0 || w.Mon.Facts["nv-emitted"] > 0 })
}

func TestC08S(t *testing.T) {
	o := simOpts{Focus: "C08", MaxN: 7, MaxHeight: 3, MaxSteps: 150, ByzBias: 95,
		Strategies: []string{"prepare", "commit", "vc", "pp", "replay", "replay", "nv", "support"}}
	simProperty(t, o, func(w *sim.World) bool { return w.Obs.ByzStored > 0 })
}

// C13 (engine S part): per-node monotonicity invariants, deterministic, on generated cluster executions with syncs.
func TestC13S(t *testing.T) {
	o := simOpts{Focus: "C13", MaxN: 7, MaxHeight: 3, MaxSteps: 150, ByzBias: 60}
	simProperty(t, o, func(w *sim.World) bool { return w.Mon.Facts["sync"] > 0 || w.Obs.HeightsDone >= 2 })
}

// C14 (engine S part): a sync below the node's height changes nothing - exact in single-threaded mode: no send, no callback,
// no (height, view) change, election registration and storage untouched.
func TestC14S(t *testing.T) {
	o := simOpts{Focus: "C14", MaxN: 7, MaxHeight: 3, MaxSteps: 150, ByzBias: 40}
	simProperty(t, o, func(w *sim.World) bool { return w.Mon.Facts["stale-sync"] > 0 })
}

// C20 (engine S part): whatever a correct node puts on the wire in generated cluster executions parses back to the same message,
// and every nested signature in it (votes, prepared proofs) verifies over the re-read bytes - the node only ever nests
// signatures of messages it had verified and stored.
func TestC20S(t *testing.T) {
	o := simOpts{Focus: "C20", MaxN: 7, MaxHeight: 2, MaxSteps: 150, ByzBias: 85,
		Strategies: []string{"prepare", "prepare", "prepare", "vc", "vc", "commit", "pp", "nv", "replay", "support"}}
	simProperty(t, o, func(w *sim.World) bool {
		return w.Mon.Facts["c20-nested-signatures-checked"] > 0 && w.Obs.ByzStored > 0
	})
}

// C17 (engine S part): node-level view of the height filter in generated cluster executions with membership changes between
// heights, foreign-instance and future-height injections, replays to arbitrary nodes: nothing is stored for a height the node is
// not at, and a node outside a height's committee neither stores nor sends anything for that height.
func TestC17S(t *testing.T) {
	o := simOpts{Focus: "C17", MaxN: 7, MaxHeight: 3, MaxSteps: 150, ByzBias: 85,
		Strategies: []string{"replay", "replay", "replay", "prepare", "commit", "pp", "nv", "vc", "support"}}
	simProperty(t, o, func(w *sim.World) bool {
		return w.Obs.HeightsDone >= 2 && (len(w.Cfg.Absent) > 0 || w.Obs.ByzStored > 0)
	})
}

// C15 (engine S part): in generated cluster executions - half of them with an election or a sync handled by the main loop while
// one node's worker sits in ValidateBlockProposal / RequestNewBlockProposal - every consumer call is entered with a live context,
// the commit callback gets a live context, and a block that RequestNewBlockProposal returned after its context had been cancelled
// is never broadcast.
func TestC15S(t *testing.T) {
	o := simOpts{Focus: "C15", MaxN: 7, MaxHeight: 3, MaxSteps: 150, ByzBias: 60}
	simProperty(t, o, func(w *sim.World) bool { return w.Obs.Interrupts > 0 || w.Obs.SplitEvents > 0 })
}

// C11 thorough variant: at emission, every correct peer is cloned by replay and judged at once (see sim.cloneCheck).
func TestC11Clone(t *testing.T) {
	col := ev.Get("C11")
	o := simOpts{Focus: "C11", MaxN: 6, MaxHeight: 2, MaxSteps: 100, ByzBias: 85,
		Strategies: []string{"vc", "vc", "vc", "prepare", "prepare", "commit", "pp", "nv", "replay", "support"}}
	rapid.Check(t, func(t *rapid.T) {
		w := runSimCaseWith(t, o, func(w *sim.World) { w.CloneMode = true })
		recordSim(col, w)
		col.ClassN("clone-judged", int64(w.Mon.Facts["c11-clone-judged"]))
		col.ClassN("clone-diverged", int64(w.Mon.Facts["c11-clone-diverged"]))
		if w.Mon.Facts["c11-clone-judged"] > 0 && w.Obs.ByzStored > 0 {
			col.NonTrivialHash(traceSig(w))
			col.Class("nontrivial")
		}
		reportSim(t, w)
	})
}
