package props

import (
	"encoding/json"
	"fmt"
	"os"
	"strings"
	"testing"
	"time"

	"verif/rt"
	"verif/sim"
)

// Debugging aid: DBG_FILE=<replay file> go test -tags verif ./props/ -run TestZZDebugReplay -v   (prints the library's
// LHMSG / LHFLOW log lines of every simulated node while the case is replayed). Skipped unless DBG_FILE is set.
func TestZZDebugReplay(t *testing.T) {
	f := os.Getenv("DBG_FILE")
	if f == "" {
		t.Skip()
	}
	raw, _ := os.ReadFile(f)
	var d struct {
		Replayer string          `json:"replayer"`
		Case     json.RawMessage `json:"case"`
	}
	if err := json.Unmarshal(raw, &d); err != nil {
		t.Fatal(err)
	}
	sim.DebugLogger = func(node int, line string) {
		if strings.Contains(line, "LHMSG") || strings.Contains(line, "LHFLOW") || os.Getenv("DBG_ALL") != "" {
			fmt.Printf("   [n%d] %s\n", node, line)
		}
	}
	defer func() { sim.DebugLogger = nil }()
	rt.DebugLogger = func(line string) {
		if strings.Contains(line, "LHMSG") || strings.Contains(line, "LHFLOW") || os.Getenv("DBG_ALL") != "" {
			fmt.Printf("   %s %s\n", time.Now().Format("05.000000"), line)
		}
	}
	defer func() { rt.DebugLogger = nil }()
	rp := replayers[d.Replayer]
	if rp == nil {
		t.Fatalf("no replayer %q", d.Replayer)
	}
	fmt.Printf("verdict: %v\n", rp(d.Case))
}
