package props

import (
	"encoding/json"
	"fmt"
	"sync"
	"testing"
	"time"

	Electiontrigger "github.com/orbs-network/lean-helix-go/services/electiontrigger"
	"github.com/orbs-network/lean-helix-go/services/interfaces"
	"github.com/orbs-network/lean-helix-go/spec/types/go/primitives"
	"pgregory.net/rapid"

	"verif/ev"
	"verif/rt"
)

// C19 (b) — behaviour of the real TimerBasedElectionTrigger under generated Register / Stop / sleep sequences with a present, slow or
// absent channel reader; and of a full node running on the real timer.

type c19Op struct {
	K    string `json:"k"` // register | stop | sleep | reader
	H    uint64 `json:"h"`
	V    uint64 `json:"v"`
	Us   int    `json:"us"`   // sleep: microseconds (absolute), or relative to the current expiry when Rel is set
	Rel  bool   `json:"rel"`  // sleep until Us microseconds before (negative) / after (positive) the expiry of the active arming
	Mode string `json:"mode"` // reader: on | slow | off
}

type c19bCase struct {
	BaseUs int     `json:"base_us"`
	Ops    []c19Op `json:"ops"`
}

type c19Arming struct {
	h, v     uint64
	before   time.Time // taken before RegisterOnElection was called
	after    time.Time
	timeout  time.Duration
	ended    time.Time // when a later register/stop returned (zero if still active)
	triggers int
}

type c19Read struct {
	h, v  uint64
	began time.Time // taken before the receive was attempted
	at    time.Time
}

// c19Stop: an explicit Stop() call: when it returned, which pair it ended, and when the next Register call started (zero: never).
type c19Stop struct {
	h, v  uint64
	had   bool // a pair was armed when Stop was called
	at    time.Time
	until time.Time
}

func runC19b(c c19bCase) (v *ev.Violation, missed bool, nearExpiry bool) {
	viol := func(kind, format string, a ...interface{}) *ev.Violation {
		return &ev.Violation{Property: "C19", Kind: kind, Detail: fmt.Sprintf(format, a...), Replayer: "C19b", Case: c}
	}
	base := time.Duration(c.BaseUs) * time.Microsecond
	tr := Electiontrigger.NewTimerBasedElectionTrigger(base, nil)
	var mu sync.Mutex
	var reads []c19Read
	mode := "on"
	stop := make(chan struct{})
	done := make(chan struct{})
	go func() { // the reader (what the main loop does)
		defer close(done)
		for {
			mu.Lock()
			m := mode
			mu.Unlock()
			switch m {
			case "off":
				select {
				case <-stop:
					return
				case <-time.After(200 * time.Microsecond):
				}
				continue
			case "slow":
				select {
				case <-stop:
					return
				case <-time.After(1500 * time.Microsecond):
				}
			}
			began := time.Now()
			select {
			case <-stop:
				return
			case t := <-tr.ElectionChannel():
				mu.Lock()
				reads = append(reads, c19Read{uint64(t.Hv.Height()), uint64(t.Hv.View()), began, time.Now()})
				mu.Unlock()
			case <-time.After(300 * time.Microsecond):
			}
		}
	}()
	var armings []*c19Arming
	var stops []*c19Stop
	var active *c19Arming
	cb := func(h primitives.BlockHeight, v primitives.View, _ interfaces.OnElectionCallback) {}
	endActive := func() {
		if active != nil {
			active.ended = time.Now()
			active = nil
		}
	}
	for _, op := range c.Ops {
		switch op.K {
		case "register":
			if active != nil && active.h == op.H && active.v == op.V {
				tr.RegisterOnElection(primitives.BlockHeight(op.H), primitives.View(op.V), cb) // same pair: must not re-arm
				continue
			}
			a := &c19Arming{h: op.H, v: op.V, before: time.Now(), timeout: tr.CalcTimeout(primitives.View(op.V))}
			for _, st := range stops { // every stop before this call ends its "nothing may be handed out" window here
				if st.until.IsZero() {
					st.until = a.before
				}
			}
			tr.RegisterOnElection(primitives.BlockHeight(op.H), primitives.View(op.V), cb)
			a.after = time.Now()
			if active != nil {
				active.ended = a.after
			}
			active = a
			armings = append(armings, a)
		case "reregister":
			if active != nil {
				tr.RegisterOnElection(primitives.BlockHeight(active.h), primitives.View(active.v), cb) // same pair: must not re-arm
				if d := time.Until(active.before.Add(2*active.timeout + 2*time.Millisecond)); d > 0 && d < 100*time.Millisecond {
					time.Sleep(d) // long enough for a wrongly re-armed timer to fire as well
				}
			}
		case "stop":
			st := &c19Stop{}
			if active != nil {
				st.h, st.v, st.had = active.h, active.v, true
			}
			tr.Stop()
			st.at = time.Now()
			stops = append(stops, st)
			endActive()
		case "sleep":
			d := time.Duration(op.Us) * time.Microsecond
			if op.Rel && active != nil {
				d = time.Until(active.before.Add(active.timeout)) + time.Duration(op.Us)*time.Microsecond
				nearExpiry = true
			}
			if d > 0 {
				if d > 80*time.Millisecond {
					d = 80 * time.Millisecond
				}
				time.Sleep(d)
			}
		case "reader":
			mu.Lock()
			mode = op.Mode
			mu.Unlock()
		}
	}
	// liveness: an armed, un-superseded registration delivers within timeout + slack when a reader is present
	mu.Lock()
	mode = "on"
	mu.Unlock()
	if active != nil {
		deadline := active.before.Add(active.timeout + 400*time.Millisecond)
		for time.Now().Before(deadline) {
			mu.Lock()
			got := false
			for _, r := range reads {
				if r.h == active.h && r.v == active.v && !r.at.Before(active.before) {
					got = true
				}
			}
			mu.Unlock()
			if got {
				break
			}
			time.Sleep(200 * time.Microsecond)
		}
	}
	time.Sleep(500 * time.Microsecond)
	tr.Stop()
	close(stop)
	<-done
	// ---- oracle over the history
	mu.Lock()
	defer mu.Unlock()
	// Sound rules (timestamps of reads are taken after the receive, so a read cannot be pinned to one arming of a pair that
	// was armed several times): per pair, no more triggers than armings; every trigger has an arming of its pair that is
	// old enough (its timeout, measured from before the Register call, had passed when the trigger was read).
	// stopping guarantees that no trigger of the old pair is handed out: a receive that was ATTEMPTED only after Stop() had returned
	// (and before the next Register call started) must not obtain a trigger. (A sender parked on the channel is released by Stop;
	// the only way the unchanged code can lose this is a timer goroutine preempted between its two selects, which is why the
	// caller requires the violation to repeat.)
	for _, r := range reads {
		for _, st := range stops {
			if st.had && r.began.After(st.at) && (st.until.IsZero() || r.at.Before(st.until)) && r.h == st.h && r.v == st.v {
				return viol("trigger-delivered-after-stop", "the trigger for (%d,%d) was handed to a reader that started receiving %v after Stop() had returned", r.h, r.v, r.began.Sub(st.at)), false, nearExpiry
			}
		}
	}
	type pair struct{ h, v uint64 }
	nArm, nRead := map[pair]int{}, map[pair]int{}
	for _, a := range armings {
		nArm[pair{a.h, a.v}]++
	}
	for _, r := range reads {
		p := pair{r.h, r.v}
		if nArm[p] == 0 {
			return viol("trigger-for-unarmed-pair", "a trigger for (%d,%d) was delivered but that pair was never armed", r.h, r.v), false, nearExpiry
		}
		nRead[p]++
		if nRead[p] > nArm[p] {
			return viol("two-triggers-for-one-arming", "(%d,%d) was armed %d times but produced %d triggers", r.h, r.v, nArm[p], nRead[p]), false, nearExpiry
		}
		oldEnough := false
		var early time.Duration
		for _, a := range armings {
			if a.h == r.h && a.v == r.v {
				if e := a.before.Add(a.timeout).Sub(r.at); e <= 0 {
					oldEnough = true
				} else {
					early = e
				}
			}
		}
		if !oldEnough {
			return viol("trigger-before-timeout", "the trigger for (%d,%d) came %v before its timeout had passed", r.h, r.v, early), false, nearExpiry
		}
		if active != nil && active.h == r.h && active.v == r.v && !r.at.Before(active.before) {
			active.triggers++
		}
	}
	if active != nil && active.triggers == 0 {
		return nil, true, nearExpiry
	}
	return nil, false, nearExpiry
}

func TestC19Trigger(t *testing.T) {
	col := ev.Get("C19")
	rapid.Check(t, func(t *rapid.T) {
		c := c19bCase{BaseUs: rapid.IntRange(2000, 5000).Draw(t, "base")}
		for i := rapid.IntRange(2, 8).Draw(t, "nops"); i > 0; i-- {
			switch rapid.IntRange(0, 7).Draw(t, "op") {
			case 0, 1, 2:
				c.Ops = append(c.Ops, c19Op{K: "register", H: uint64(rapid.IntRange(1, 3).Draw(t, "h")), V: uint64(rapid.IntRange(0, 3).Draw(t, "v"))})
			case 3:
				if rapid.Bool().Draw(t, "rereg") {
					// register the pair that is already active once more, after its expiry: must not arm a second timer
					c.Ops = append(c.Ops, c19Op{K: "sleep", Rel: true, Us: rapid.IntRange(200, 1500).Draw(t, "afterexp")}, c19Op{K: "reregister"}, c19Op{K: "sleep", Rel: true, Us: rapid.IntRange(200, 1500).Draw(t, "afterexp2")})
				} else {
					c.Ops = append(c.Ops, c19Op{K: "stop"})
				}
			case 4:
				c.Ops = append(c.Ops, c19Op{K: "sleep", Us: rapid.SampledFrom([]int{0, 100, 500, 2000, 6000}).Draw(t, "us")})
			case 5, 6: // around the expiry of the active arming: -1ms .. +1ms
				c.Ops = append(c.Ops, c19Op{K: "sleep", Rel: true, Us: rapid.IntRange(-1000, 1000).Draw(t, "relus")})
			case 7:
				c.Ops = append(c.Ops, c19Op{K: "reader", Mode: rapid.SampledFrom([]string{"on", "slow", "off"}).Draw(t, "rmode")})
			}
		}
		if rapid.IntRange(0, 3).Draw(t, "stop-template") == 0 {
			// the expired trigger is parked on the channel (no reader), then Stop(), then a reader shows up
			c.Ops = append(c.Ops, c19Op{K: "reader", Mode: "off"}, c19Op{K: "register", H: uint64(rapid.IntRange(4, 6).Draw(t, "th")), V: uint64(rapid.IntRange(0, 1).Draw(t, "tv"))},
				c19Op{K: "sleep", Rel: true, Us: rapid.IntRange(300, 1500).Draw(t, "parked-for")}, c19Op{K: "stop"}, c19Op{K: "reader", Mode: "on"}, c19Op{K: "sleep", Us: 1500})
		}
		v, missed, near := runC19b(c)
		if v != nil && v.Kind == "trigger-delivered-after-stop" { // counts only if it repeats: three runs in a row
			for n := 1; n < 3 && v != nil; n++ {
				if v2, _, _ := runC19b(c); v2 == nil || v2.Kind != v.Kind {
					v = nil
					col.Inconcl()
				}
			}
		}
		if missed { // a miss counts only if the same case misses on three consecutive runs
			n := 1
			for ; n < 3 && missed && v == nil; n++ {
				v, missed, _ = runC19b(c)
			}
			if missed && v == nil {
				v = &ev.Violation{Property: "C19", Kind: "armed-timer-never-delivers", Detail: "an armed, un-superseded registration delivered no trigger within timeout+400ms with a reader present, three runs in a row", Replayer: "C19b", Case: c}
			} else if v == nil {
				col.Inconcl()
			}
		}
		col.Case()
		col.Class("R:trigger-sequence")
		if near {
			b, _ := json.Marshal(c)
			col.NonTrivial(string(b))
			col.Class("R:stop-or-register-near-expiry")
		}
		col.Sample(func() interface{} { return c })
		if v != nil {
			if msg := ev.Report(v); msg != "" {
				t.Fatal(msg)
			}
		}
	})
}

// Full node on the real timer, left alone: views advance by timeouts only; every view lasts at least its timeout.
type c19NodeCase struct {
	Cfg    rt.Config `json:"cfg"`
	WaitMs int       `json:"wait_ms"`
}

func runC19Node(c c19NodeCase) (*ev.Violation, bool) {
	viol := func(kind, format string, a ...interface{}) *ev.Violation {
		return &ev.Violation{Property: "C19", Kind: kind, Detail: fmt.Sprintf(format, a...), Replayer: "C19node", Case: c}
	}
	h := rt.New(c.Cfg)
	h.Start()
	// Sound measurement: a view's real duration is at most (first time the NEXT state was seen) - (last time the PREVIOUS state
	// was seen); sampling delays can only enlarge that bound, so "bound < timeout" is a real violation whatever the load.
	type sample struct {
		hv           [2]uint64
		firstSeen    time.Time
		prevLastSeen time.Time // last time the previous state was observed (the state was entered after this instant)
	}
	var samples []sample
	stop := make(chan struct{})
	done := make(chan struct{})
	go func() {
		defer close(done)
		lastSeen := time.Now()
		for {
			select {
			case <-stop:
				return
			default:
			}
			hh, vv := h.HV()
			now := time.Now()
			if n := len(samples); n == 0 || samples[n-1].hv != [2]uint64{hh, vv} {
				samples = append(samples, sample{[2]uint64{hh, vv}, now, lastSeen})
			}
			lastSeen = now
			time.Sleep(20 * time.Microsecond)
		}
	}()
	h.UpdateState(nil, nil, nil)
	time.Sleep(time.Duration(c.WaitMs) * time.Millisecond)
	close(stop)
	<-done
	ok, _ := h.Shutdown(10 * time.Second)
	if !ok {
		return nil, true
	}
	base := time.Duration(c.Cfg.BaseMs) * time.Millisecond
	for i := 1; i+1 < len(samples); i++ {
		a, b := samples[i], samples[i+1]
		if a.hv[0] != 1 || b.hv[0] != 1 || b.hv[1] != a.hv[1]+1 {
			continue
		}
		want := base << a.hv[1]
		if atMost := b.firstSeen.Sub(a.prevLastSeen); atMost < want-200*time.Microsecond {
			return viol("view-left-before-timeout", "view %d lasted at most %v, less than its timeout %v", a.hv[1], atMost, want), false
		}
	}
	// liveness: with base b and wait w the node must have passed view k where b*(2^(k+1)-1) + slack < w
	var maxV uint64
	for _, s := range samples {
		if s.hv[1] > maxV {
			maxV = s.hv[1]
		}
	}
	need := uint64(0)
	for k := uint64(0); k < 10; k++ {
		if (base<<(k+1))-base+150*time.Millisecond < time.Duration(c.WaitMs)*time.Millisecond {
			need = k + 1
		}
	}
	if maxV < need {
		return nil, true // missed: judged by the caller on repetition
	}
	return nil, false
}

func TestC19Node(t *testing.T) {
	col := ev.Get("C19")
	rapid.Check(t, func(t *rapid.T) {
		n := rapid.IntRange(4, 5).Draw(t, "n")
		c := c19NodeCase{Cfg: rt.Config{N: n, Me: rapid.IntRange(0, n-1).Draw(t, "me"), RealTimer: true, BaseMs: rapid.IntRange(2, 6).Draw(t, "basems")}, WaitMs: rapid.IntRange(20, 250).Draw(t, "wait")}
		v, missed := runC19Node(c)
		if missed && v == nil {
			k := 1
			for ; k < 3 && missed && v == nil; k++ {
				v, missed = runC19Node(c)
			}
			if missed && v == nil {
				v = &ev.Violation{Property: "C19", Kind: "node-timer-never-fires", Detail: "a node left alone on the real timer did not advance its view within the expected time, three runs in a row", Replayer: "C19node", Case: c}
			} else if v == nil {
				col.Inconcl()
			}
		}
		col.Case()
		col.Class("R:node-on-real-timer")
		b, _ := json.Marshal(c)
		col.NonTrivial(string(b))
		if v != nil {
			if msg := ev.Report(v); msg != "" {
				t.Fatal(msg)
			}
		}
	})
}

func init() {
	replayers["C19b"] = func(raw json.RawMessage) *ev.Violation {
		var c c19bCase
		if err := json.Unmarshal(raw, &c); err != nil {
			return &ev.Violation{Property: "C19", Kind: "bad-replay-file", Detail: err.Error()}
		}
		for i := 0; i < 20; i++ {
			if v, _, _ := runC19b(c); v != nil {
				return v
			}
		}
		return nil
	}
	replayers["C19node"] = func(raw json.RawMessage) *ev.Violation {
		var c c19NodeCase
		if err := json.Unmarshal(raw, &c); err != nil {
			return &ev.Violation{Property: "C19", Kind: "bad-replay-file", Detail: err.Error()}
		}
		v, _ := runC19Node(c)
		return v
	}
}
