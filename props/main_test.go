package props

import (
	"encoding/json"
	"fmt"
	"os"
	"testing"

	"verif/ev"
)

// replayers maps a replayer name (normally the property id) to a function that re-runs one saved case
// directly against the code, bypassing rapid.
var replayers = map[string]func(raw json.RawMessage) *ev.Violation{}

func TestMain(m *testing.M) {
	code := m.Run()
	ev.Flush()
	os.Exit(code)
}

type replayFile struct {
	Property string          `json:"property"`
	Kind     string          `json:"kind"`
	Detail   string          `json:"detail"`
	Replayer string          `json:"replayer"`
	Case     json.RawMessage `json:"case"`
}

// TestReplay re-runs the case in $VERIF_REPLAY_FILE. It prints "REPLAY-VIOLATION kind=<kind>" and fails if the case
// still violates its property, prints "REPLAY-OK" otherwise.
func TestReplay(t *testing.T) {
	p := os.Getenv("VERIF_REPLAY_FILE")
	if p == "" {
		t.Skip("no VERIF_REPLAY_FILE")
	}
	b, err := os.ReadFile(p)
	if err != nil {
		t.Fatalf("REPLAY-ERROR %v", err)
	}
	var rf replayFile
	if err := json.Unmarshal(b, &rf); err != nil {
		t.Fatalf("REPLAY-ERROR %v", err)
	}
	name := rf.Replayer
	if name == "" {
		name = rf.Property
	}
	f, ok := replayers[name]
	if !ok {
		t.Fatalf("REPLAY-ERROR no replayer %q", name)
	}
	n := 1
	if os.Getenv("VERIF_REPLAY_REPEAT") != "" {
		fmt.Sscan(os.Getenv("VERIF_REPLAY_REPEAT"), &n)
	}
	for i := 0; i < n; i++ {
		if v := f(rf.Case); v != nil {
			fmt.Printf("REPLAY-VIOLATION property=%s kind=%s detail=%s\n", v.Property, v.Kind, v.Detail)
			t.Fatalf("replay violates: %s", v.Error())
		}
	}
	fmt.Println("REPLAY-OK")
}
