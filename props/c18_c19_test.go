package props

import (
	"encoding/json"
	"fmt"
	"math"
	"math/big"
	"testing"
	"time"

	Electiontrigger "github.com/orbs-network/lean-helix-go/services/electiontrigger"
	"github.com/orbs-network/lean-helix-go/services/interfaces"
	"github.com/orbs-network/lean-helix-go/services/termincommittee"
	"github.com/orbs-network/lean-helix-go/spec/types/go/primitives"
	"pgregory.net/rapid"

	"verif/ev"
	"verif/ref"
)

// ---------------------------------------------------------------- C18 leader rotation (function level)

type c18Case struct {
	N    int    `json:"n"`
	View uint64 `json:"view"`
	Win  bool   `json:"window"` // also check the round-robin window starting at View
}

func plainCommittee(n int) []interfaces.CommitteeMember {
	c := make([]interfaces.CommitteeMember, n)
	for i := range c {
		c[i] = interfaces.CommitteeMember{Id: memberID(i), Weight: 1}
	}
	return c
}

func safeLeader(v uint64, com []interfaces.CommitteeMember) (id primitives.MemberId, panicked interface{}) {
	defer func() {
		if r := recover(); r != nil {
			panicked = r
		}
	}()
	return termincommittee.VerifLeaderOf(primitives.View(v), com), nil
}

func runC18(c c18Case) *ev.Violation {
	viol := func(kind, format string, a ...interface{}) *ev.Violation {
		return &ev.Violation{Property: "C18", Kind: kind, Detail: fmt.Sprintf(format, a...), Replayer: "C18", Case: c}
	}
	com := plainCommittee(c.N)
	id, p := safeLeader(c.View, com)
	if p != nil {
		return viol("leader-panic", "leader computation panicked for view %d, n=%d: %v", c.View, c.N, p)
	}
	if want := ref.Leader(primitives.View(c.View), com); !id.Equal(want) {
		return viol("leader-wrong", "view %d n=%d: leader %s, want member at position view mod n = %s", c.View, c.N, id, want)
	}
	if c.Win {
		// each member leads exactly once in any run of n consecutive views (views wrap at 2^64 like the uint64 they are)
		seen := map[string]int{}
		for k := 0; k < c.N; k++ {
			v := c.View + uint64(k)
			if v < c.View { // wrapped past 2^64-1: consecutive views no longer exist; stop the window
				return nil
			}
			id, p := safeLeader(v, com)
			if p != nil {
				return viol("leader-panic", "leader computation panicked for view %d, n=%d: %v", v, c.N, p)
			}
			seen[string(id)]++
		}
		if len(seen) != c.N {
			return viol("round-robin", "window of %d views from %d has %d distinct leaders", c.N, c.View, len(seen))
		}
	}
	return nil
}

func c18ViewGen(n int) *rapid.Generator[uint64] {
	var pows []uint64
	for k := uint(0); k < 64; k++ {
		p := uint64(1) << k
		pows = append(pows, p-1, p, p+1)
	}
	around := func(c uint64) *rapid.Generator[uint64] {
		return rapid.Custom(func(t *rapid.T) uint64 { return c - 8 + uint64(rapid.IntRange(0, 16).Draw(t, "d")) })
	}
	return rapid.OneOf(
		rapid.Uint64Range(0, uint64(4*n)),
		rapid.SampledFrom(pows),
		around(1<<31), around(1<<32), around(1<<63),
		rapid.Custom(func(t *rapid.T) uint64 { return math.MaxUint64 - uint64(rapid.IntRange(0, 4*n).Draw(t, "k")) }),
		rapid.Uint64(),
	)
}

func TestC18Leader(t *testing.T) {
	col := ev.Get("C18")
	rapid.Check(t, func(t *rapid.T) {
		n := rapid.IntRange(4, 64).Draw(t, "n")
		c := c18Case{N: n, View: c18ViewGen(n).Draw(t, "view"), Win: rapid.Bool().Draw(t, "win")}
		col.Case()
		if c.View >= 1<<31 || c.View%uint64(n) == 0 || c.View <= uint64(n) {
			col.NonTrivial(fmt.Sprintf("%d/%d", c.N, c.View))
		}
		switch {
		case c.View >= 1<<63:
			col.Class("view>=2^63")
		case c.View >= 1<<31:
			col.Class("view 2^31..2^63")
		default:
			col.Class("view<2^31")
		}
		col.Sample(func() interface{} { return c })
		if v := runC18(c); v != nil {
			if msg := ev.Report(v); msg != "" {
				t.Fatal(msg)
			}
		}
	})
}

// Dense part: every n in 4..64, every view in 0..4n and 2^64-1-k for k<4n, exhaustively.
func TestC18Dense(t *testing.T) {
	col := ev.Get("C18")
	var count int64
	for n := 4; n <= 64; n++ {
		for k := 0; k <= 4*n; k++ {
			for _, v := range []uint64{uint64(k), math.MaxUint64 - uint64(k), 1<<63 - uint64(2*n) + uint64(k), 1<<32 - uint64(2*n) + uint64(k), 1<<31 - uint64(2*n) + uint64(k)} {
				c := c18Case{N: n, View: v, Win: true}
				count++
				col.NonTrivial(fmt.Sprintf("%d/%d", n, v))
				if vi := runC18(c); vi != nil {
					if msg := ev.Report(vi); msg != "" {
						t.Fatal(msg)
					}
				}
			}
		}
	}
	col.Cases(count)
	col.Exhaust("n in 4..64 x views {0..4n, 2^64-1-k, 2^63-2n+k, 2^32-2n+k, 2^31-2n+k : k<=4n} with round-robin window", count)
}

// ---------------------------------------------------------------- C19 (a) timeout formula

type c19aCase struct {
	BaseNs int64  `json:"base_ns"`
	View   uint64 `json:"view"`
}

// exactTimeout returns base*2^v and whether it fits in int64.
func exactTimeout(base int64, v uint64) (*big.Int, bool) {
	if v > 70 {
		return nil, false
	}
	x := new(big.Int).Lsh(big.NewInt(base), uint(v))
	return x, x.IsInt64()
}

func runC19a(c c19aCase) *ev.Violation {
	viol := func(kind, format string, a ...interface{}) *ev.Violation {
		return &ev.Violation{Property: "C19", Kind: kind, Detail: fmt.Sprintf(format, a...), Replayer: "C19a", Case: c}
	}
	tr := Electiontrigger.NewTimerBasedElectionTrigger(time.Duration(c.BaseNs), nil)
	got := int64(tr.CalcTimeout(primitives.View(c.View)))
	if got <= 0 {
		return viol("timeout-nonpositive", "base=%dns view=%d: CalcTimeout=%d (must be positive: saturate, never wrap)", c.BaseNs, c.View, got)
	}
	if want, fits := exactTimeout(c.BaseNs, c.View); fits {
		if got != want.Int64() {
			return viol("timeout-formula", "base=%dns view=%d: CalcTimeout=%d want base*2^view=%s", c.BaseNs, c.View, got, want)
		}
	} else {
		// saturated region: must be at least the largest exactly representable timeout of a lower view
		lv := uint64(0)
		for lv+1 < c.View {
			if _, ok := exactTimeout(c.BaseNs, lv+1); !ok {
				break
			}
			lv++
		}
		low, _ := exactTimeout(c.BaseNs, lv)
		if big.NewInt(got).Cmp(low) < 0 {
			return viol("timeout-not-monotone", "base=%dns view=%d: CalcTimeout=%d is smaller than the timeout %s of lower view %d", c.BaseNs, c.View, got, low, lv)
		}
	}
	// monotone against the previous view
	if c.View > 0 {
		prev := int64(tr.CalcTimeout(primitives.View(c.View - 1)))
		if prev > got {
			return viol("timeout-not-monotone", "base=%dns: CalcTimeout(%d)=%d > CalcTimeout(%d)=%d", c.BaseNs, c.View-1, prev, c.View, got)
		}
	}
	return nil
}

func TestC19Formula(t *testing.T) {
	col := ev.Get("C19")
	bases := []int64{1, 1000, 1000000, int64(4 * time.Second), int64(time.Hour), 1 << 62, 3, 12345678}
	var pows []uint64
	for k := uint(0); k < 64; k++ {
		p := uint64(1) << k
		pows = append(pows, p-1, p, p+1)
	}
	rapid.Check(t, func(t *rapid.T) {
		base := rapid.OneOf(rapid.SampledFrom(bases), rapid.Int64Range(1, int64(24*time.Hour))).Draw(t, "base")
		view := rapid.OneOf(rapid.Uint64Range(0, 200), rapid.Uint64Range(0, 70), rapid.SampledFrom(pows), rapid.Uint64Range(math.MaxUint64-200, math.MaxUint64), rapid.Uint64()).Draw(t, "view")
		c := c19aCase{BaseNs: base, View: view}
		col.Case()
		if x, fits := exactTimeout(base, view); !fits || x.BitLen() >= 62 {
			col.NonTrivial(fmt.Sprintf("f/%d/%d", base, view))
			col.Class("formula: base*2^v >= 2^62")
		} else {
			col.Class("formula: exact region")
		}
		col.Sample(func() interface{} { return c })
		if v := runC19a(c); v != nil {
			if msg := ev.Report(v); msg != "" {
				t.Fatal(msg)
			}
		}
	})
}

// Dense: all listed bases x views 0..200.
func TestC19FormulaDense(t *testing.T) {
	col := ev.Get("C19")
	var count int64
	for _, base := range []int64{1, 1000, 1000000, int64(4 * time.Second), int64(time.Hour), 1 << 62} {
		for v := uint64(0); v <= 200; v++ {
			count++
			if vi := runC19a(c19aCase{BaseNs: base, View: v}); vi != nil {
				if msg := ev.Report(vi); msg != "" {
					t.Fatal(msg)
				}
			}
		}
	}
	col.Cases(count)
	col.Exhaust("formula: bases {1ns,1us,1ms,4s,1h,2^62ns} x views 0..200", count)
}

func init() {
	replayers["C18"] = func(raw json.RawMessage) *ev.Violation {
		var c c18Case
		if err := json.Unmarshal(raw, &c); err != nil {
			return &ev.Violation{Property: "C18", Kind: "bad-replay-file", Detail: err.Error()}
		}
		return runC18(c)
	}
	replayers["C19a"] = func(raw json.RawMessage) *ev.Violation {
		var c c19aCase
		if err := json.Unmarshal(raw, &c); err != nil {
			return &ev.Violation{Property: "C19", Kind: "bad-replay-file", Detail: err.Error()}
		}
		return runC19a(c)
	}
}
