package props

import (
	"encoding/json"
	"fmt"
	"testing"

	"pgregory.net/rapid"

	"verif/ev"
	"verif/sim"
)

// C06 (behavioural part): the quorum thresholds as the protocol logic applies them. See sim/qengine.go.

func drawQCase(t *rapid.T) sim.QCase {
	n := rapid.IntRange(4, 9).Draw(t, "n")
	ws := make([]uint64, n)
	wclass := rapid.IntRange(0, 5).Draw(t, "wclass")
	for i := range ws {
		switch wclass {
		case 0:
			ws[i] = 1
		case 1:
			ws[i] = uint64(rapid.IntRange(1, 4).Draw(t, "w"))
		case 2: // zero-weight members never add weight
			ws[i] = uint64(rapid.IntRange(0, 3).Draw(t, "w"))
		case 3: // stake-sized: small multiples of 2^58 plus low bits (thresholds fall between float64 neighbours)
			ws[i] = uint64(rapid.IntRange(1, 4).Draw(t, "w"))<<58 + uint64(rapid.IntRange(0, 3).Draw(t, "wlow"))
		case 4: // around 2^53
			ws[i] = 1<<53 + uint64(rapid.IntRange(0, 5).Draw(t, "wlow"))
		default:
			ws[i] = uint64(rapid.IntRange(1, 100).Draw(t, "w"))
		}
	}
	nonzero := false
	for _, x := range ws {
		nonzero = nonzero || x > 0
	}
	if !nonzero {
		ws[0] = 1
	}
	cfg := sim.Config{N: n, Weights: ws, Order: rapid.Permutation(seq(n)).Draw(t, "order"), Rot: rapid.IntRange(0, n-1).Draw(t, "rot"),
		Outsiders: rapid.IntRange(0, 2).Draw(t, "outsiders"), MaxHeight: 2, Focus: "C06"}
	c := sim.QCase{Cfg: cfg, Scenario: rapid.SampledFrom([]string{"prepare", "commit", "elect"}).Draw(t, "scenario")}
	c.Me = rapid.IntRange(0, n-1).Draw(t, "me")
	if c.Scenario != "elect" && cfg.Order[0] == c.Me { // Me must not lead view 0 of height 1 (Members(1) = Order)
		c.Me = cfg.Order[1]
	}
	c.Timeouts = rapid.IntRange(0, n).Draw(t, "timeouts")
	if c.Scenario == "elect" {
		c.Jump = rapid.SampledFrom([]int{0, 0, 0, 1, 2, 5}).Draw(t, "jump")
	}
	// senders: a permutation of everybody (members and outsiders), with a few repeats sprinkled in
	all := rapid.Permutation(seq(n+cfg.Outsiders)).Draw(t, "senders")
	for _, s := range all {
		c.Senders = append(c.Senders, s)
		if rapid.IntRange(0, 4).Draw(t, "repeat?") == 0 {
			c.Senders = append(c.Senders, all[rapid.IntRange(0, len(all)-1).Draw(t, "repeat")])
		}
	}
	return c
}

func TestC06InUse(t *testing.T) {
	col := ev.Get("C06")
	rapid.Check(t, func(t *rapid.T) {
		c := drawQCase(t)
		r := sim.RunQCase(c)
		col.Case()
		col.Class("in-use:" + c.Scenario)
		if r.Steps > 0 {
			col.Class("in-use:judged")
		}
		if r.Acted {
			col.Class("in-use:" + c.Scenario + ":quorum-reached-and-acted")
		}
		if r.MaxTotalBits > 53 {
			col.Class("in-use:total>2^53")
		}
		if r.AtThreshold > 0 {
			b, _ := json.Marshal(c)
			col.NonTrivial(string(b))
			col.ClassN("in-use:deliveries-one-member-from-threshold", int64(r.AtThreshold))
		}
		col.Sample(func() interface{} { return c })
		if v := r.W.Viol; v != nil {
			v.Replayer = "Q"
			v.Case = c
			if msg := ev.Report(v); msg != "" {
				t.Fatal(msg)
			}
		}
	})
}

// C18 (behavioural part, both directions): the member at position (view mod n) takes the lead of that view as soon as votes of
// quorum weight for it have arrived - also when that view is several rotations ahead of the view the member is in.
func TestC18Elect(t *testing.T) {
	col := ev.Get("C18")
	rapid.Check(t, func(t *rapid.T) {
		c := drawQCase(t)
		c.Scenario = "elect"
		c.Cfg.Focus = "C18"
		c.Jump = rapid.SampledFrom([]int{0, 1, 1, 2, 3, 7}).Draw(t, "jump18")
		c.Timeouts = rapid.SampledFrom([]int{0, 0, 1, 2}).Draw(t, "timeouts18")
		r := sim.RunQCase(c)
		col.Case()
		col.Class(fmt.Sprintf("elect:jump=%d", c.Jump))
		if r.Acted {
			col.Class("elect:took-the-lead")
			b, _ := json.Marshal(c)
			col.NonTrivial(string(b))
		}
		if v := r.W.Viol; v != nil {
			v.Property, v.Kind, v.Replayer, v.Case = "C18", "leader-does-not-take-its-turn:"+v.Kind, "Q18", c
			if msg := ev.Report(v); msg != "" {
				t.Fatal(msg)
			}
		}
	})
}

func init() {
	replayers["Q18"] = func(raw json.RawMessage) *ev.Violation {
		var c sim.QCase
		if err := json.Unmarshal(raw, &c); err != nil {
			return &ev.Violation{Property: "C18", Kind: "bad-replay-file", Detail: err.Error()}
		}
		r := sim.RunQCase(c)
		if v := r.W.Viol; v != nil {
			v.Property, v.Kind, v.Replayer, v.Case = "C18", "leader-does-not-take-its-turn:"+v.Kind, "Q18", c
			return v
		}
		return nil
	}
	replayers["Q"] = func(raw json.RawMessage) *ev.Violation {
		var c sim.QCase
		if err := json.Unmarshal(raw, &c); err != nil {
			return &ev.Violation{Property: "C06", Kind: "bad-replay-file", Detail: err.Error()}
		}
		r := sim.RunQCase(c)
		if v := r.W.Viol; v != nil {
			v.Replayer = "Q"
			v.Case = c
			return v
		}
		return nil
	}
}

var _ = fmt.Sprint
