# Human-written per-property manifest text. gen_manifest.py combines it with plan.py.

NOTES = ("All checks are property-based tests / fuzzing (pgregory.net/rapid v1.3.0, Go native fuzzing, bounded exhaustive enumeration of small "
         "sub-domains run through the same property bodies). Driver: ./check.py <ID> quick|thorough. Known findings: known_findings.json. "
         "Design and per-property oracles: DESIGN.md.")

ENGINES = [
    {"name": "P", "path": "/verif/props", "serves_properties": ["C02", "C06", "C15", "C17", "C18", "C19", "C20"],
     "kind_free_text": "rapid properties and bounded exhaustive enumerators over exported functions / small state machines, judged by the reference model in /verif/ref"},
    {"name": "S", "path": "/verif/sim", "serves_properties": ["C01", "C03", "C04", "C05", "C09", "C10", "C11", "C13", "C17"],
     "kind_free_text": "deterministic single-threaded cluster simulator over real node code (verif-tagged VerifNode), generated schedules and Byzantine strategies with an unforgeable key registry"},
    {"name": "N", "path": "/verif/sim", "serves_properties": ["C07", "C08", "C09", "C12", "C18"],
     "kind_free_text": "one real node, harness holds every key: valid-then-mutated candidate messages in generated node states"},
    {"name": "R", "path": "/verif/rt", "serves_properties": ["C12", "C13", "C14", "C15", "C16", "C19"],
     "kind_free_text": "real two-goroutine runtime (MainLoop.Run) with gated SPIs and quiescence detection"},
    {"name": "F", "path": "/verif/props", "serves_properties": ["C02", "C12", "C20"],
     "kind_free_text": "Go native coverage-guided fuzz targets with the semantic oracle inside the target (thorough tier)"},
]

NOT_BUILT_REASON = {}

CHECKS = {
    "C06": dict(
        engine="P",
        technique="property-based testing (rapid) + bounded exhaustive enumeration against a math/big reference",
        level="Generated-input search: every law of the statement is an executable check against big-integer reference arithmetic, over all small weight vectors x all subset pairs (exhaustive), random vectors up to total 2^64 and committees constructed to sit exactly on the f/Q thresholds around 2^53..2^64. Holds on everything explored; not a proof for all 64-bit vectors.",
        note="Trusts math/big and the reference formulas f=floor((W-1)/3), Q=W-f written from the property text. Precondition: distinct ids, total < 2^64, attainability law for W>=1.",
    ),
}
