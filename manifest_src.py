# Human-written per-property manifest text. gen_manifest.py combines it with plan.py.

NOTES = ("All checks are property-based tests / fuzzing (pgregory.net/rapid v1.3.0, Go native fuzzing, bounded exhaustive enumeration of small "
         "sub-domains run through the same property bodies). Driver: ./check.py <ID> quick|thorough. Known findings: known_findings.json. "
         "Design and per-property oracles: DESIGN.md.")

ENGINES = [
    {"name": "P", "path": "/verif/props", "serves_properties": ["C02", "C06", "C15", "C17", "C18", "C19", "C20"],
     "kind_free_text": "rapid properties and bounded exhaustive enumerators over exported functions / small state machines, judged by the reference model in /verif/ref"},
    {"name": "S", "path": "/verif/sim", "serves_properties": ["C01", "C03", "C04", "C05", "C07", "C08", "C09", "C10", "C11", "C13", "C14", "C17", "C20"],
     "kind_free_text": "deterministic single-threaded cluster simulator over real node code (verif-tagged VerifNode), generated schedules and Byzantine strategies with an unforgeable key registry"},
    {"name": "N", "path": "/verif/sim", "serves_properties": ["C06", "C07", "C08", "C09", "C12", "C13", "C18"],
     "kind_free_text": "one real node, harness holds every key: valid-then-mutated candidate messages in generated node states"},
    {"name": "R", "path": "/verif/rt", "serves_properties": ["C12", "C13", "C14", "C15", "C16", "C19"],
     "kind_free_text": "real two-goroutine runtime (MainLoop.Run) with gated SPIs and quiescence detection"},
    {"name": "F", "path": "/verif/props", "serves_properties": ["C02", "C12", "C20"],
     "kind_free_text": "Go native coverage-guided fuzz targets with the semantic oracle inside the target (thorough tier)"},
]

NOT_BUILT_REASON = {}

SIM_NOTE = ("Trusts the fakes (HMAC key registry: a signature verifies only if made with the claimed sender's key; the adversary code path can sign only with Byzantine/outsider keys and copy observed bytes), "
            "the verif-tagged VerifNode step functions (one legal interleaving of the two loops per event), the reference model in /verif/ref and rapid. Bounds: n<=7 (thorough 10), heights<=3 (4), traces<=~200 actions; weight classes up to stake-sized (k*2^58), optional membership change between heights.")

CHECKS = {
    "C01": dict(engine="S", technique="stateful property-based testing (rapid): generated schedules + Byzantine strategies on a deterministic simulator of real nodes; invariant over commit history",
        level="Generated-input search over committees, weights, Byzantine sets, schedules and adversarial message constructions; agreement is checked at every commit callback. A scripted+generated regression set (replays/) pins the defects found. One open known finding (stand-alone PREPREPARE in view>0) is excluded by construction and reported as KNOWN-FINDING.",
        note=SIM_NOTE),
    "C03": dict(engine="S", technique="stateful property-based testing (rapid) with a differential oracle: implementation validator on a peer + independent reference validator at every commit",
        level="Every (block, proof) handed to a correct commit callback in generated adversarial executions is re-validated strictly on a different correct node and by the reference validator.",
        note=SIM_NOTE),
    "C04": dict(engine="S", technique="stateful property-based testing (rapid): consumer-invalid proposals injected in view 0 and inside NEW_VIEWs; invariant over commit history and validator call log",
        level="Generated executions with Byzantine leaders proposing blocks the consumer rejects (stand-alone, as fresh NEW_VIEW proposals, under cover of genuine/forged locks); every committed block is checked for height, certified hash, legitimate proposer and consumer approval at a correct member.",
        note=SIM_NOTE),
    "C10": dict(engine="S", technique="stateful property-based testing (rapid): invariant over each correct node's send log joined with its reference-validated inbox",
        level="Single-valued signatures and phase-order rules are checked on every message a correct node sends in generated adversarial executions (equivocating leaders, duplicates, replays, late commits).",
        note=SIM_NOTE),
    "C05": dict(engine="S", technique="stateful property-based testing (rapid) in virtual time: adversarial prefix, then a harness-owned fair timely schedule; oracle = derived bound on timer firings",
        level="Bounded liveness: 'eventually' is decided as a step bound under FIFO zero-latency suffixes on a virtual clock the harness owns (no wall clock), from generated reachable states and with Byzantine injections during the suffix. Other fair schedules are not covered; the evidence reports the worst observed firing count against the bound. One open known finding (a single member holding quorum weight alone never prepares) is excluded by construction and reported.",
        note=SIM_NOTE + " The bound |D|*(Vmax-Vmin+2n+4) is derived in DESIGN.md (C05) and is deliberately loose."),
    "C07": dict(engine="N+S", technique="property-based testing (rapid): valid-then-mutated message candidates against an independent reference certificate predicate; same oracle as a monitor in the stateful cluster simulator",
        level="Field-by-field mutation of reference-built NEW_VIEW / PREPREPARE / VIEW_CHANGE messages delivered to a real node in generated states; every effect is judged by ref.ValidNewView. Control group (unmutated accepted) is measured. Known finding (stand-alone PREPREPARE in view>0) is listed, counted and reported as KNOWN-FINDING.",
        note=SIM_NOTE + " Engine N: the harness holds every key except the node's own."),
    "C08": dict(engine="N+S", technique="property-based testing (rapid): valid-then-mutated PREPREPARE/PREPARE/COMMIT/VIEW_CHANGE candidates against the reference predicate mayInfluence; monitor on every delivery in the cluster simulator",
        level="One-directional oracle (effect implies authorised) over a mutation catalogue covering instance, height, view, hash, sender, signature, type tag, envelope re-wrap, share, proofs; measured control-group acceptance.",
        note=SIM_NOTE + " Interpretation: type tags of block references inside proofs and of the proposal embedded in a NEW_VIEW are not demanded (DESIGN section 10)."),
    "C09": dict(engine="N+S", technique="stateful property-based testing (rapid): outgoing VIEW_CHANGE / NEW_VIEW of a real node checked against its delivered history and storage log",
        level="Voter and collector scenarios on one real node with generated vote sets, plus monitors on every correct node's view-change output in generated cluster executions.",
        note=SIM_NOTE),
    "C11": dict(engine="S", technique="stateful property-based testing (rapid): acceptance oracle at every delivery of honest traffic in adversarial executions",
        level="Whenever a correct node's message reaches a correct peer in a state matching the statement's precondition, the accepting effect must occur; adversary strategies that contaminate logs (outsider/Byzantine PREPARE/COMMIT/VIEW_CHANGE variants, re-wraps) are emphasised. A second test clones every correct peer by replay at emission time and judges acceptance at once (few cases in quick, many in thorough).",
        note=SIM_NOTE),
    "C02": dict(engine="P+F", technique="property-based testing (rapid) + native coverage-guided fuzzing, differential against an independent reference validator",
        level="Genuine certificates cut exactly at the quorum / f thresholds, then field mutations and byte surgery; one-directional oracle as the property states (accept => reference-valid), panics are violations; accept rate on reference-valid proofs is measured (anti-vacuity).",
        note="Trusts the HMAC key registry, the big-integer quorum reference and the seed derivation re-implemented in /verif/ref. Byte-level readers (membuffers) are shared with the implementation."),
    "C12": dict(engine="N+R+F", technique="property-based testing (rapid) + native fuzzing of hostile bytes and extreme field values; post-condition 'node still commits' on a real node in process and on the real runtime",
        level="No-crash / no-wedge / no-disable is checked in process (main-loop step and worker step under recover, then a scripted round, an election) and on the real two-goroutine runtime (supervisor log scanned for recovered panics, follow-up round must commit, quiescence-judged).",
        note="In-process layer uses the verif-tagged step functions that mirror the loop bodies; the runtime layer uses NewLeanHelix+Run unmodified."),
    "C13": dict(engine="R+S", technique="stateful property-based testing (rapid) on the real two-goroutine runtime with gated SPIs; invariants over the observed history; plus the deterministic simulator",
        level="History invariants that hold under every interleaving (so scheduler nondeterminism cannot produce a false alarm), checked on generated runs in which syncs and elections land while the worker is held inside SPI calls and commit callbacks fail; plus, on one real node driven step by step, valid NEW_VIEWs into views up to 2^64-1 followed by timeouts (no wrap-around of the view).",
        note="The harness controls SPI boundaries, not the Go scheduler: interleavings strictly inside the library are sampled (thorough also builds with -race)."),
    "C14": dict(engine="R+S", technique="stateful property-based testing (rapid) on the real runtime; quiescence detection (goroutine stack snapshots) instead of timeouts; exact stale-sync invariants on the deterministic simulator",
        level="Stale syncs (including the block exactly one below the current height) are additionally judged at the SPI boundary: no Stop/Register on the election scheduler, no Store/Clear on storage, no send, no callback, no (h,v) change - on settled triples of the real runtime and after every stale sync of generated cluster executions. 'Eventually above the synced height' is judged at quiescence: both loops parked in their own select in two stack snapshots means nothing will ever change, so a missing effect is a real violation; a deadline hit is inconclusive, never a violation.",
        note="Trusts the quiescence detector in /verif/rt (parses runtime.Stack output)."),
    "C15": dict(engine="P+R+S", technique="bounded exhaustive enumeration + random sequences against a reference registry model; stateful property-based testing of blocking SPI calls on the real runtime",
        level="(a) complete enumeration of short op sequences over a small position alphabet and long random ones against an executable specification; (b) generated interleavings of context-blocked SPI calls with elections, syncs and shutdown, judged on the recorded history.",
        note="Interpretation: 'superseded' = by the events the statement lists (trigger, sync, shutdown), i.e. the registry watermark. Election triggers are generated only for the current or older positions (the node's own timer cannot produce a future one)."),
    "C16": dict(engine="R", technique="stateful property-based testing (rapid): cancellation injected at generated points of runs on the real runtime, with the real timer-based trigger as well",
        level="Shutdown completeness on generated runs: bounded WaitUntilShutdown, silence afterwards, goroutine diff, prompt return of API calls with a cancelled context.",
        note="Crash points are op boundaries plus whatever the scheduler adds; not every instruction-level point."),
    "C17": dict(engine="P+S", technique="bounded exhaustive enumeration + property-based testing (rapid) against a reference future-cache model, including re-entrant advance; node-level invariants in the stateful cluster simulator",
        level="Node level (engine S): in generated cluster executions with committee membership changing between heights, foreign-instance / future-height injections and replays to arbitrary nodes, nothing is stored for a height the node is not at and a node outside a height's committee neither stores nor sends for it. Filter level: All short sequences over a 12-letter alphabet and long random sequences on the real filter with a real State; the re-entrant case (commit during a drain) is generated explicitly.",
        note="Interpretation of 'provided no message for a height above H had been received before it': before the start of H (the weaker obligation, consistent with the one-height bound)."),
    "C19": dict(engine="P+R", technique="property-based testing (rapid): exact/saturating formula oracle; history oracle over real-timer runs; stateful runs of the real two-goroutine runtime with gated SPIs for the trigger's way through the loops",
        level="(c) on the real runtime with a harness-played timer: the last trigger of a generated run, if it named the node's position when the main loop took it, has moved the node by final quiescence - including runs in which two triggers arrive inside one worker step (hand-over slot occupied). (a) exact integer reference for the formula over the full view range; (b) counting and lower-bound rules over histories of the real trigger and of a full node on the real timer; liveness misses count only when repeated three times.",
        note="(b) depends on the OS timer and the Go scheduler: only the lower bound and the counting rules are exact."),
    "C20": dict(engine="P+F+S", technique="property-based testing (rapid) + native fuzzing: round-trip and signature re-verification oracle; the same oracle as a monitor on everything correct nodes emit in the stateful cluster simulator",
        level="In generated cluster executions every message a correct node puts on the wire (votes and proofs nested from messages it stored, incl. equivocating PREPAREs and Byzantine votes) parses back to the same header and every nested signature verifies over the re-read bytes. Factory level: Every message the factory can build over the full field ranges is round-tripped; signatures are re-verified over the re-read bytes including nested votes and proofs.",
        note="Trusts the HMAC key registry; messages are built only through messagesfactory."),
    "C18": dict(engine="P", technique="property-based testing (rapid) + dense enumeration of the leader function against view mod n in uint64",
        level="Leader function tabulated through a verif-tagged accessor over dense small views, all power-of-two neighbourhoods, 2^63 and 2^64-1 neighbourhoods and random 64-bit views for n=4..64, including round-robin windows.",
        note="Trusts the accessor VerifLeaderOf (one-line wrapper around the package-private function). Behavioural cross-check (leader acceptance on a real node at views >= 2^63) is part of C12/C08 engine N."),
    "C06": dict(
        engine="P+N",
        technique="property-based testing (rapid) + bounded exhaustive enumeration against a math/big reference; differential test of the thresholds as a real node applies them",
        level="Behavioural part: on one real node, genuinely signed PREPAREs / COMMITs / VIEW_CHANGEs of generated sender sequences (repeats, outsiders, zero and stake-sized weights, ids sharing their leading bytes) are delivered one at a time and the node has acted (prepared / committed / elected) iff the distinct members counted reach Q in big integers - both directions. Function level: Generated-input search: every law of the statement is an executable check against big-integer reference arithmetic, over all small weight vectors x all subset pairs (exhaustive), random vectors up to total 2^64 and committees constructed to sit exactly on the f/Q thresholds around 2^53..2^64. Holds on everything explored; not a proof for all 64-bit vectors.",
        note="Trusts math/big and the reference formulas f=floor((W-1)/3), Q=W-f written from the property text. Precondition: distinct ids, total < 2^64, attainability law for W>=1.",
    ),
}
