# Human-written per-property manifest text. gen_manifest.py combines it with plan.py.

NOTES = ("All checks are property-based tests / fuzzing (pgregory.net/rapid v1.3.0, Go native fuzzing, bounded exhaustive enumeration of small "
         "sub-domains run through the same property bodies). Driver: ./check.py <ID> quick|thorough. Known findings: known_findings.json. "
         "Design and per-property oracles: DESIGN.md.")

ENGINES = [
    {"name": "P", "path": "/verif/props", "serves_properties": ["C02", "C06", "C15", "C17", "C18", "C19", "C20"],
     "kind_free_text": "rapid properties and bounded exhaustive enumerators over exported functions / small state machines, judged by the reference model in /verif/ref"},
    {"name": "S", "path": "/verif/sim", "serves_properties": ["C01", "C03", "C04", "C05", "C09", "C10", "C11", "C13", "C17"],
     "kind_free_text": "deterministic single-threaded cluster simulator over real node code (verif-tagged VerifNode), generated schedules and Byzantine strategies with an unforgeable key registry"},
    {"name": "N", "path": "/verif/sim", "serves_properties": ["C07", "C08", "C09", "C12", "C18"],
     "kind_free_text": "one real node, harness holds every key: valid-then-mutated candidate messages in generated node states"},
    {"name": "R", "path": "/verif/rt", "serves_properties": ["C12", "C13", "C14", "C15", "C16", "C19"],
     "kind_free_text": "real two-goroutine runtime (MainLoop.Run) with gated SPIs and quiescence detection"},
    {"name": "F", "path": "/verif/props", "serves_properties": ["C02", "C12", "C20"],
     "kind_free_text": "Go native coverage-guided fuzz targets with the semantic oracle inside the target (thorough tier)"},
]

NOT_BUILT_REASON = {}

SIM_NOTE = ("Trusts the fakes (HMAC key registry: a signature verifies only if made with the claimed sender's key; the adversary code path can sign only with Byzantine/outsider keys and copy observed bytes), "
            "the verif-tagged VerifNode step functions (one legal interleaving of the two loops per event), the reference model in /verif/ref and rapid. Bounds: n<=7, heights<=3, traces<=~200 actions.")

CHECKS = {
    "C01": dict(engine="S", technique="stateful property-based testing (rapid): generated schedules + Byzantine strategies on a deterministic simulator of real nodes; invariant over commit history",
        level="Generated-input search over committees, weights, Byzantine sets, schedules and adversarial message constructions; agreement is checked at every commit callback. A scripted+generated regression set (replays/) pins the defects found. One open known finding (stand-alone PREPREPARE in view>0) is excluded by construction and reported as KNOWN-FINDING.",
        note=SIM_NOTE),
    "C03": dict(engine="S", technique="stateful property-based testing (rapid) with a differential oracle: implementation validator on a peer + independent reference validator at every commit",
        level="Every (block, proof) handed to a correct commit callback in generated adversarial executions is re-validated strictly on a different correct node and by the reference validator.",
        note=SIM_NOTE),
    "C04": dict(engine="S", technique="stateful property-based testing (rapid): consumer-invalid proposals injected in view 0 and inside NEW_VIEWs; invariant over commit history and validator call log",
        level="Generated executions with Byzantine leaders proposing blocks the consumer rejects (stand-alone, as fresh NEW_VIEW proposals, under cover of genuine/forged locks); every committed block is checked for height, certified hash, legitimate proposer and consumer approval at a correct member.",
        note=SIM_NOTE),
    "C10": dict(engine="S", technique="stateful property-based testing (rapid): invariant over each correct node's send log joined with its reference-validated inbox",
        level="Single-valued signatures and phase-order rules are checked on every message a correct node sends in generated adversarial executions (equivocating leaders, duplicates, replays, late commits).",
        note=SIM_NOTE),
    "C05": dict(engine="S", technique="stateful property-based testing (rapid) in virtual time: adversarial prefix, then a harness-owned fair timely schedule; oracle = derived bound on timer firings",
        level="Bounded liveness: 'eventually' is decided as a step bound under FIFO zero-latency suffixes on a virtual clock the harness owns (no wall clock), from generated reachable states and with Byzantine injections during the suffix. Other fair schedules are not covered; the evidence reports the worst observed firing count against the bound. One open known finding (a single member holding quorum weight alone never prepares) is excluded by construction and reported.",
        note=SIM_NOTE + " The bound |D|*(Vmax-Vmin+2n+4) is derived in DESIGN.md (C05) and is deliberately loose."),
    "C07": dict(engine="N+S", technique="property-based testing (rapid): valid-then-mutated message candidates against an independent reference certificate predicate; same oracle as a monitor in the stateful cluster simulator",
        level="Field-by-field mutation of reference-built NEW_VIEW / PREPREPARE / VIEW_CHANGE messages delivered to a real node in generated states; every effect is judged by ref.ValidNewView. Control group (unmutated accepted) is measured. Known finding (stand-alone PREPREPARE in view>0) is listed, counted and reported as KNOWN-FINDING.",
        note=SIM_NOTE + " Engine N: the harness holds every key except the node's own."),
    "C08": dict(engine="N+S", technique="property-based testing (rapid): valid-then-mutated PREPREPARE/PREPARE/COMMIT/VIEW_CHANGE candidates against the reference predicate mayInfluence; monitor on every delivery in the cluster simulator",
        level="One-directional oracle (effect implies authorised) over a mutation catalogue covering instance, height, view, hash, sender, signature, type tag, envelope re-wrap, share, proofs; measured control-group acceptance.",
        note=SIM_NOTE + " Interpretation: type tags of block references inside proofs and of the proposal embedded in a NEW_VIEW are not demanded (DESIGN section 10)."),
    "C09": dict(engine="N+S", technique="stateful property-based testing (rapid): outgoing VIEW_CHANGE / NEW_VIEW of a real node checked against its delivered history and storage log",
        level="Voter and collector scenarios on one real node with generated vote sets, plus monitors on every correct node's view-change output in generated cluster executions.",
        note=SIM_NOTE),
    "C11": dict(engine="S", technique="stateful property-based testing (rapid): acceptance oracle at every delivery of honest traffic in adversarial executions",
        level="Whenever a correct node's message reaches a correct peer in a state matching the statement's precondition, the accepting effect must occur; adversary strategies that contaminate logs (outsider/Byzantine PREPARE/COMMIT/VIEW_CHANGE variants, re-wraps) are emphasised. The clone-by-replay variant of the design (judging at emission against every peer) is not built; acceptance is judged when the schedule delivers.",
        note=SIM_NOTE),
    "C18": dict(engine="P", technique="property-based testing (rapid) + dense enumeration of the leader function against view mod n in uint64",
        level="Leader function tabulated through a verif-tagged accessor over dense small views, all power-of-two neighbourhoods, 2^63 and 2^64-1 neighbourhoods and random 64-bit views for n=4..64, including round-robin windows.",
        note="Trusts the accessor VerifLeaderOf (one-line wrapper around the package-private function). Behavioural cross-check (leader acceptance on a real node at views >= 2^63) is part of C12/C08 engine N."),
    "C06": dict(
        engine="P",
        technique="property-based testing (rapid) + bounded exhaustive enumeration against a math/big reference",
        level="Generated-input search: every law of the statement is an executable check against big-integer reference arithmetic, over all small weight vectors x all subset pairs (exhaustive), random vectors up to total 2^64 and committees constructed to sit exactly on the f/Q thresholds around 2^53..2^64. Holds on everything explored; not a proof for all 64-bit vectors.",
        note="Trusts math/big and the reference formulas f=floor((W-1)/3), Q=W-f written from the property text. Precondition: distinct ids, total < 2^64, attainability law for W>=1.",
    ),
}
