#!/bin/bash
# Runs every property's check in the given tier (default quick) and validates the evidence files.
tier=${1:-quick}
cd "$(dirname "$0")"
fail=0
for i in $(seq -w 1 20); do
  p=C$i
  out=$(./check.py $p $tier 2>/tmp/run_all_$p.err); rc=$?
  echo "$p rc=$rc $(echo "$out" | tail -1 | cut -c1-200)"
  [ $rc -ne 0 ] && fail=1
done
python3-vt - <<'PY'
import json,jsonschema,glob
s=json.load(open('/root/.vp/EVIDENCE.schema.json'))
for f in sorted(glob.glob('/verif/evidence/C*.json')):
    try:
        jsonschema.validate(json.load(open(f)), s)
    except Exception as e:
        print('INVALID', f, str(e)[:200])
print('evidence files checked:', len(glob.glob('/verif/evidence/C*.json')))
PY
exit $fail
