package sim

import (
	"fmt"

	"github.com/orbs-network/lean-helix-go/spec/types/go/primitives"

	"verif/ev"
	"verif/ref"
)

// C05 - bounded liveness in virtual time.
//
// After an adversarial prefix, the harness owns a virtual clock: every message addressed to a member of D (the correct, live
// members still deciding the lowest undecided height) is delivered in FIFO order before any timer fires (zero virtual time),
// then the clock jumps to the earliest expiry in D and that timer fires. Timeouts are base*2^view in exact integers; at the
// stabilisation point each member gets a generated remaining time in (0, base*2^view].

const liveBase = uint64(8) // virtual time units of the view-0 timeout

type StabInj struct {
	AtFiring int     `json:"at"`               // injected after this many timer firings (0 = right at stabilisation)
	Repeat   bool    `json:"repeat,omitempty"` // ... and again after every later firing (a persistent adversary)
	Spec     ByzSpec `json:"spec"`             // Spec.V is an OFFSET added to the highest view in D at injection time; Spec.H is ignored
	AsSel    int     `json:"as_sel"`
}

// Reactive makes the Byzantine members answer, inside the timely suffix, every proposal a correct leader makes at the deciding
// height straight away (before the correct members' own answers are delivered): PREPARE + COMMIT (or COMMIT only) for it, sent
// to the members in To only - a selective helper, whose help the other members do not get.
type Reactive struct {
	CommitsOnly bool   `json:"commits_only,omitempty"`
	To          uint16 `json:"to"`
}

type LiveCase struct {
	Cfg    Config    `json:"cfg"`
	Prefix []Action  `json:"prefix"`
	R      []int     `json:"r"`   // per identity: remaining time as a fraction r/1000 of the node's full timeout
	Inj    []StabInj `json:"inj"` // Byzantine injections during the stable suffix
	// The property fixes no order among the messages of the timely suffix, only that all of them arrive before a timer fires:
	// Order picks the k-th oldest deliverable message instead of the oldest (one entry per delivery, then FIFO), Defer lists
	// messages that are delivered only when nothing else is pending (still before any timer).
	Order []int      `json:"order,omitempty"`
	Defer []HoldRule `json:"defer,omitempty"`
	React *Reactive  `json:"react,omitempty"`
	// Disabled lists triggers excluded because of open known findings (set by the search, never by a replay file)
	Disabled []string `json:"-"`
}

type LiveResult struct {
	Discarded      string // precondition failed (why); "" otherwise
	H              uint64
	D              []int
	Vmin, Vmax     uint64
	Bound          int
	Firings        int
	Committed      bool
	CommitView     uint64
	LeaderInD      bool
	NonTrivial     bool
	Injected       int
	NoTimer        int  // deciders that had no armed election timer at the stabilisation point
	JoinedByQuorum bool // the committing view was proposed inside the suffix by a decider and accepted by deciders of quorum weight (second clause judged)
	Reordered      int  // deliveries of the suffix that were not the oldest pending message
	Reacted        int  // proposals of correct leaders the Byzantine members answered selectively inside the suffix
}

func satShl(base uint64, v uint64) uint64 {
	if v >= 50 {
		return 1 << 60
	}
	return base << v
}

// RunLive executes the prefix, then the stable suffix, and returns the verdict (w.Viol set on violation).
func RunLive(c LiveCase) (*World, LiveResult) {
	cfg := c.Cfg
	cfg.Focus = "C05"
	w := NewWorld(cfg)
	for _, x := range c.Disabled {
		w.Adv.Disabled[x] = true
	}
	w.Start()
	for _, a := range c.Prefix {
		w.Apply(a)
	}
	var res LiveResult
	if w.Viol != nil {
		return w, res
	}
	// events of the prefix that were split in two (main-loop half done, worker half still queued) are completed first: a queued
	// node sync is the host's doing, not a message among the deciders, and must not take a decider away inside the suffix
	for _, n := range w.Nodes {
		for k := 0; n != nil && !n.Crashed && (n.pendingTrig != nil || n.pendingSync != nil) && k < 64; k++ {
			w.runPending(n)
		}
	}
	if w.Viol != nil {
		return w, res
	}
	w.Holds = nil
	// D: correct live members at the lowest undecided height
	h := uint64(1 << 62)
	for _, i := range w.CorrectLive() {
		if x := w.Nodes[i].H(); x < h {
			h = x
		}
	}
	if h == 0 || h > cfg.MaxHeight {
		res.Discarded = "all-decided"
		return w, res
	}
	res.H = h
	com := w.Committee(primitives.BlockHeight(h))
	var ids []primitives.MemberId
	inD := map[int]bool{}
	for _, i := range w.CorrectLive() {
		if w.Nodes[i].H() == h {
			res.D = append(res.D, i)
			inD[i] = true
			ids = append(ids, w.IDs[i])
		}
	}
	if !ref.IsQuorum(ids, com) {
		res.Discarded = "deciders-below-quorum"
		return w, res
	}
	if w.Adv.Disabled["single-member-quorum"] { // open known finding: excluded by construction, counted by the caller
		for _, id := range ids {
			if ref.IsQuorum([]primitives.MemberId{id}, com) {
				res.Discarded = "excluded:single-member-quorum"
				return w, res
			}
		}
	}
	res.Vmin, res.Vmax = 1<<62, 0
	prepared := false
	for _, i := range res.D {
		n := w.Nodes[i]
		v := n.V()
		if v < res.Vmin {
			res.Vmin = v
		}
		if v > res.Vmax {
			res.Vmax = v
		}
		if _, _, ok := w.Mon.highestPrepared(n, h, 1<<30); ok {
			prepared = true
		}
		if !n.Sch.Active {
			res.NoTimer++ // a decider without an armed election timer never times out; whether the others get along without it is judged like everything else
		}
	}
	if res.Vmax > 24 {
		res.Discarded = "views-too-high"
		return w, res
	}
	res.Bound = len(res.D) * (int(res.Vmax-res.Vmin) + 2*cfg.N + 4)
	res.NonTrivial = res.Vmin != res.Vmax || prepared || len(c.Inj) > 0 || len(c.Order) > 0 || len(c.Defer) > 0 || c.React != nil

	seenAtStab := len(w.Seen)
	// virtual clock
	now := uint64(0)
	expiry := map[int]uint64{}
	armSeen := map[int]int{}
	for _, i := range res.D {
		n := w.Nodes[i]
		if !n.Sch.Active {
			expiry[i] = 1 << 62
			armSeen[i] = len(n.Sch.Armings)
			continue
		}
		full := satShl(liveBase, n.V())
		frac := 1000
		if i < len(c.R) && c.R[i] >= 1 && c.R[i] <= 1000 {
			frac = c.R[i]
		}
		r := (full*uint64(frac) + 999) / 1000
		if r == 0 {
			r = 1
		}
		expiry[i] = now + r
		armSeen[i] = len(n.Sch.Armings)
	}
	rearm := func() {
		for _, i := range res.D {
			n := w.Nodes[i]
			for ; armSeen[i] < len(n.Sch.Armings); armSeen[i]++ {
				a := n.Sch.Armings[armSeen[i]]
				expiry[i] = now + satShl(liveBase, uint64(a.V))
			}
		}
	}
	committed := func() bool {
		for _, i := range res.D {
			for _, cm := range w.Nodes[i].Commits {
				if cm.H == h {
					return true
				}
			}
		}
		return false
	}
	orderPos, seenCursor := 0, len(w.Seen)
	react := func() {
		for ; seenCursor < len(w.Seen); seenCursor++ {
			s := w.Seen[seenCursor]
			if c.React == nil || len(cfg.Byz) == 0 || s.Meta.H != h || (s.Meta.Union != UPP && s.Meta.Union != UNV) || !w.IsCorrect(s.From) {
				continue
			}
			p1 := 0
			if c.React.CommitsOnly {
				p1 = 1
			}
			sp := ByzSpec{Strat: "follow", H: h, V: s.Meta.V, As: cfg.Byz[0], To: c.React.To, P: []int{0, p1}}
			w.Trace = append(w.Trace, Action{K: "byz", Byz: &sp})
			w.Adv.Do(&sp)
			res.Reacted++
		}
	}
	deferred := func(m *Msg) bool {
		for _, r := range c.Defer {
			if r.matches(m) {
				return true
			}
		}
		return false
	}
	deliverAll := func() {
		for guard := 0; guard < 100000 && w.Viol == nil; guard++ {
			var now, later []int
			for k, x := range w.Pool {
				if !inD[x.To] {
					continue
				}
				if deferred(x) {
					later = append(later, k)
				} else {
					now = append(now, k)
				}
			}
			if len(now) == 0 {
				now = later
			}
			if len(now) == 0 {
				return
			}
			idx := now[0]
			if orderPos < len(c.Order) {
				if k := c.Order[orderPos]; k > 0 {
					idx = now[k%len(now)]
					res.Reordered++
				}
				orderPos++
			}
			m := w.Pool[idx]
			w.remove(idx)
			w.Trace = append(w.Trace, Action{K: "deliver", ID: m.ID})
			w.deliver(m)
			rearm()
			react()
		}
	}
	inject := func(firing int) {
		for _, in := range c.Inj {
			if in.AtFiring != firing && !(in.Repeat && firing > in.AtFiring) {
				continue
			}
			var owned []int
			owned = append(owned, cfg.Byz...)
			for i := cfg.N; i < len(w.IDs); i++ {
				owned = append(owned, i)
			}
			if len(owned) == 0 {
				return
			}
			sp := in.Spec
			sp.H = h
			maxV := uint64(0)
			for _, i := range res.D {
				if v := w.Nodes[i].V(); v > maxV {
					maxV = v
				}
			}
			sp.V = maxV + in.Spec.V
			sp.As = owned[in.AsSel%len(owned)]
			if (sp.Strat == "nv" || sp.Strat == "pp") && sp.V > 0 {
				// use a view the adversary leads, at or above the drawn one
				for dv := uint64(0); dv < uint64(cfg.N); dv++ {
					if l := w.LeaderIdx(h, sp.V+dv); w.IsByz(l) {
						sp.V, sp.As = sp.V+dv, l
						break
					}
				}
			}
			w.Trace = append(w.Trace, Action{K: "byz", Byz: &sp})
			w.Adv.Do(&sp)
			res.Injected++
			deliverAll()
		}
	}

	inject(0)
	deliverAll()
	for !committed() && w.Viol == nil {
		if res.Firings >= res.Bound {
			break
		}
		// earliest expiry in D
		best := -1
		for _, i := range res.D {
			if w.Nodes[i].H() != h {
				continue
			}
			if best < 0 || expiry[i] < expiry[best] {
				best = i
			}
		}
		if best < 0 || expiry[best] >= 1<<62 {
			break // nobody has a timer armed: nothing will ever happen
		}
		if expiry[best] > now {
			now = expiry[best]
		}
		res.Firings++
		expiry[best] = 1 << 62 // fired; re-armed by the node's next registration
		w.Trace = append(w.Trace, Action{K: "timeout", Node: best})
		w.timeout(best)
		rearm()
		deliverAll()
		inject(res.Firings)
	}
	res.Committed = committed()
	if w.Viol != nil {
		return w, res
	}
	if !res.Committed {
		w.Viol = &ev.Violation{Property: "C05", Kind: "no-commit-within-bound", Replayer: "LIVE",
			Detail: fmt.Sprintf("height %d: deciders %v (views %d..%d) did not commit within %d timer firings of a timely fair suffix", h, res.D, res.Vmin, res.Vmax, res.Bound)}
		return w, res
	}
	// every member of D that stored the committing view's proposal commits it (after everything is delivered)
	deliverAll()
	var cv uint64
	var chash string
	for _, i := range res.D {
		for _, cm := range w.Nodes[i].Commits {
			if cm.H == h {
				cv = pviewOf(cm.Proof)
				chash = string(cm.Block.Hash())
			}
		}
	}
	res.CommitView = cv
	res.LeaderInD = inD[w.LeaderIdx(h, cv)]
	// the second clause is about a view whose traffic falls entirely into the timely suffix: its proposal was first sent after
	// the stabilisation point (messages lost before that point stay lost, so an older view's COMMITs may be missing for good)
	proposedAfter := true
	for _, s := range w.Seen[:seenAtStab] {
		if (s.Meta.Union == UPP || s.Meta.Union == UNV) && s.Meta.H == h && s.Meta.V == cv {
			proposedAfter = false
		}
	}
	if !proposedAfter || !res.LeaderInD {
		return w, res
	}
	// ... and about a view that correct members of quorum weight joined: the members that accepted its proposal must hold
	// quorum weight among themselves (a member that commits with the selective help of Byzantine members, in a view most
	// correct members never entered, leaves the others below quorum - the property promises nothing about that view)
	accepted := func(n *Node) bool {
		for _, e := range n.Sto.Log {
			if e.Kind == "PP" && e.Stored && uint64(e.H) == h && uint64(e.V) == cv && e.Hash == chash {
				return true
			}
		}
		return false
	}
	// (a member that accepted the proposal and was then drawn into a higher view - by votes left over from the asynchronous
	// prefix or sent by Byzantine members, never by a timer here - has left that view and no longer counts as part of it)
	stayed := func(n *Node) bool {
		for _, cm := range n.Commits {
			if cm.H == h {
				return true
			}
		}
		return n.H() == h && n.V() == cv
	}
	var acc []primitives.MemberId
	for _, i := range res.D {
		if accepted(w.Nodes[i]) && stayed(w.Nodes[i]) {
			acc = append(acc, w.IDs[i])
		}
	}
	if !ref.IsQuorum(acc, com) {
		return w, res
	}
	res.JoinedByQuorum = true
	for _, i := range res.D {
		n := w.Nodes[i]
		stored := accepted(n) && stayed(n)
		done := false
		for _, cm := range n.Commits {
			if cm.H == h {
				done = true
			}
		}
		if stored && !done {
			w.Viol = &ev.Violation{Property: "C05", Kind: "accepted-proposal-not-committed", Replayer: "LIVE",
				Detail: fmt.Sprintf("height %d view %d: node %d accepted that view's proposal but did not commit it although every message was delivered", h, cv, i)}
		}
	}
	return w, res
}
