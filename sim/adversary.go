package sim

import (
	"fmt"

	"github.com/orbs-network/lean-helix-go/services/interfaces"
	"github.com/orbs-network/lean-helix-go/spec/types/go/primitives"
	"github.com/orbs-network/lean-helix-go/spec/types/go/protocol"

	"verif/fakes"
	"verif/ref"
)

// ByzSpec is a structured (JSON-able) description of one adversarial injection.
type ByzSpec struct {
	Strat   string `json:"s"`
	As      int    `json:"as"` // identity index used as sender / signer (must be Byzantine or an outsider)
	To      uint16 `json:"to"` // recipient mask (correct nodes)
	H       uint64 `json:"h"`
	V       uint64 `json:"v"`
	P       []int  `json:"p,omitempty"`        // strategy-specific parameters
	Inst    uint64 `json:"inst,omitempty"`     // offset added to the instance id of everything this injection signs (0 = this instance)
	HdrOnly bool   `json:"hdr_only,omitempty"` // nv: only the outer NEW_VIEW header (and the embedded proposal) carry the foreign instance id; the votes are for this instance
	Tailor  bool   `json:"tailor,omitempty"`   // nv: one NEW_VIEW per recipient, the recipient's own signatures removed from the adversary's proofs (a node never verifies its own signature)
}

// Adversary holds the Byzantine and outsider keys. It can sign only with those, and can copy anything it has observed.
type Adversary struct {
	w *World
	// Disabled strategies / sub-modes (known findings are excluded by construction here, and counted)
	Disabled map[string]bool
	Excluded map[string]int
	// Proposals the adversary itself has injected (stand-alone or inside a NEW_VIEW); "support" backs them with PREPAREs and COMMITs
	Proposals []AdvProposal
	instOff   uint64
	tailorFor int // >= 0 while a NEW_VIEW tailored for that recipient is being built
}

type AdvProposal struct {
	H, V  uint64
	Hash  []byte
	Block *fakes.Block
}

func newAdversary(w *World) *Adversary {
	return &Adversary{w: w, Disabled: map[string]bool{}, Excluded: map[string]int{}, tailorFor: -1}
}

// owns: the adversary may sign as identity i.
func (a *Adversary) owns(i int) bool {
	return i >= 0 && i < len(a.w.IDs) && (a.w.IsByz(i) || a.w.IsOutsider(i))
}

func (a *Adversary) sign(i int, h uint64, content []byte) []byte {
	if !a.owns(i) {
		panic("adversary asked to sign with a correct node's key")
	}
	return a.w.Reg.SignAs(a.w.IDs[i], primitives.BlockHeight(h), content)
}

func (a *Adversary) share(i int, h uint64) []byte {
	if !a.owns(i) {
		panic("adversary asked to sign with a correct node's key")
	}
	return a.w.Reg.ShareAs(a.w.IDs[i], primitives.BlockHeight(h), ref.SeedBytes(a.w.SeedAt(h)))
}

func par(s *ByzSpec, k int) int {
	if k < len(s.P) {
		if s.P[k] < 0 {
			return -s.P[k]
		}
		return s.P[k]
	}
	return 0
}

// SeedAt returns the random seed of height h (derived from the unique seed signature of any proof of h-1).
func (w *World) SeedAt(h uint64) uint64 {
	var prev []byte
	if h > 1 {
		for _, n := range w.Nodes {
			if n == nil {
				continue
			}
			for _, c := range n.Commits {
				if c.H == h-1 {
					prev = c.Proof
				}
			}
		}
	}
	return ref.SeedOf(protocol.BlockProofReader(prev).RandomSeedSignature())
}

// PrevBlockID returns the id of the block committed at h-1 by some correct node ("" if none / genesis).
func (w *World) PrevBlockID(h uint64) string {
	if h <= 1 {
		return ""
	}
	if b, ok := w.Mon.committed[h-1]; ok {
		return b.ID
	}
	return ""
}

// Blocks the adversary can choose from at height h: three of its own making and every block seen in honest proposals.
func (a *Adversary) blocks(h uint64) []*fakes.Block {
	prev := a.w.PrevBlockID(h)
	mk := func(tag string, valid bool) *fakes.Block {
		return &fakes.Block{H: primitives.BlockHeight(h), Ref: primitives.TimestampSeconds(1000 + uint32(h)), ID: fmt.Sprintf("byz/%d/%s", h, tag), Prev: prev, Valid: valid}
	}
	out := []*fakes.Block{mk("A", true), mk("B", true), mk("I", false), mk("C!r", true)}
	seen := map[string]bool{}
	for _, s := range a.w.Seen {
		if s.Meta.H == h && s.Raw.Block != nil {
			if b := fakes.AsBlock(s.Raw.Block); b != nil && !seen[b.ID] {
				seen[b.ID] = true
				out = append(out, b)
			}
		}
	}
	return out
}

func (a *Adversary) block(h uint64, k int) *fakes.Block {
	bs := a.blocks(h)
	return bs[k%len(bs)]
}

func (a *Adversary) inject(strategy string, spec *MsgSpec, to uint16) {
	raw := spec.Build()
	a.injectRaw(strategy, raw, to)
}

func (a *Adversary) injectRaw(strategy string, raw *interfaces.ConsensusRawMessage, to uint16) {
	w := a.w
	meta := MetaOf(raw)
	w.Obs.Strategies[strategy]++
	first := true
	for i := 0; i < w.Cfg.N; i++ {
		if to>>uint(i)&1 == 0 || !w.IsCorrect(i) || w.Nodes[i].Crashed {
			continue
		}
		m := w.push(&Msg{From: -1, To: i, Raw: raw, Meta: meta, Origin: "byz:" + strategy})
		if first {
			w.AdvSent = append(w.AdvSent, m)
			first = false
		}
	}
}

func (a *Adversary) ref(t uint16, h, v uint64, hash []byte) RefSpec {
	return RefSpec{Type: t, Inst: uint64(Instance) + a.instOff, H: h, V: v, Hash: hash}
}

func (a *Adversary) signedRef(as int, r RefSpec) SigSpec {
	return SigSpec{ID: a.w.IDs[as], Sig: a.sign(as, r.H, r.Raw())}
}

// ---- evidence the adversary can assemble from what it has seen

// seenVotes returns genuine VIEW_CHANGE votes (from correct nodes) for exactly (h, v), one per sender, with their blocks.
func (a *Adversary) seenVotes(h, v uint64) ([]VoteSpec, []*fakes.Block) {
	var vs []VoteSpec
	var bs []*fakes.Block
	have := map[string]bool{}
	for _, s := range a.w.Seen {
		if s.Meta.Union == UVC && s.Meta.H == h && s.Meta.V == v && !have[s.Meta.Sender] {
			have[s.Meta.Sender] = true
			vs = append(vs, VoteOf(protocol.LeanhelixContentReader(s.Raw.Content).ViewChangeMessage()))
			bs = append(bs, fakes.AsBlock(s.Raw.Block))
		}
	}
	return vs, bs
}

// bestProof assembles the highest-view prepared proof below view v that the adversary can build from observed
// PREPREPAREs / PREPAREs (plus PREPAREs by its own members). Returns nil if none reaches quorum.
func (a *Adversary) bestProof(h, v uint64, skipHighest int) (*ProofSpec, *fakes.Block) {
	w := a.w
	com := w.Committee(primitives.BlockHeight(h))
	type cand struct {
		pv    uint64
		spec  *ProofSpec
		block *fakes.Block
	}
	var cands []cand
	// every proposal signed by the leader of its view, seen in honest traffic or injected by the adversary itself
	type prop struct {
		ref   RefSpec
		sig   SigSpec
		block *fakes.Block
	}
	var props []prop
	addPP := func(pp *protocol.PreprepareContent, blk interfaces.Block) {
		if pp == nil || len(pp.Raw()) == 0 {
			return
		}
		hd := pp.SignedHeader()
		if uint64(hd.BlockHeight()) != h || uint64(hd.View()) >= v {
			return
		}
		props = append(props, prop{refOf(hd), sigOf(pp.Sender()), fakes.AsBlock(blk)})
	}
	scan := func(raw *interfaces.ConsensusRawMessage) {
		r := protocol.LeanhelixContentReader(raw.Content)
		if r.IsMessagePreprepareMessage() {
			addPP(r.PreprepareMessage(), raw.Block)
		} else if r.IsMessageNewViewMessage() {
			addPP(r.NewViewMessage().Message(), raw.Block)
		}
	}
	for _, s := range w.Seen {
		if s.Meta.H == h && (s.Meta.Union == UPP || s.Meta.Union == UNV) {
			scan(s.Raw)
		}
	}
	for _, s := range w.AdvSent {
		if s.Meta.H == h && (s.Meta.Union == UPP || s.Meta.Union == UNV) {
			scan(s.Raw)
		}
	}
	for _, p := range props {
		leader := ref.Leader(primitives.View(p.ref.V), com)
		if !primitives.MemberId(p.sig.ID).Equal(leader) {
			continue
		}
		pr := a.ref(TP, h, p.ref.V, p.ref.Hash)
		var ps []SigSpec
		ids := []primitives.MemberId{leader}
		have := map[string]bool{string(leader): true}
		for _, s := range w.Seen {
			if s.Meta.Union == UP && s.Meta.H == h && s.Meta.V == p.ref.V && s.Meta.Hash == string(p.ref.Hash) && !have[s.Meta.Sender] {
				have[s.Meta.Sender] = true
				pm := protocol.LeanhelixContentReader(s.Raw.Content).PrepareMessage()
				ps = append(ps, sigOf(pm.Sender()))
				ids = append(ids, pm.Sender().MemberId())
			}
		}
		for _, b := range w.Cfg.Byz {
			if !have[string(w.IDs[b])] {
				have[string(w.IDs[b])] = true
				ps = append(ps, a.signedRef(b, pr))
				ids = append(ids, w.IDs[b])
			}
		}
		if ref.IsQuorum(ids, com) {
			cands = append(cands, cand{p.ref.V, &ProofSpec{PP: p.ref, PPSender: p.sig, P: pr, PSenders: ps}, p.block})
		}
	}
	if len(cands) == 0 {
		return nil, nil
	}
	// order by view descending
	for i := range cands {
		for j := i + 1; j < len(cands); j++ {
			if cands[j].pv > cands[i].pv {
				cands[i], cands[j] = cands[j], cands[i]
			}
		}
	}
	k := skipHighest % len(cands)
	return cands[k].spec, cands[k].block
}

// forgedProof: a proof for block b at view pv in which the PREPREPARE is signed by the adversary when it leads pv (garbage otherwise)
// and PREPAREs in correct members' names carry garbage signatures.
func (a *Adversary) forgedProof(as int, h, pv uint64, b *fakes.Block, mode int) *ProofSpec {
	w := a.w
	com := w.Committee(primitives.BlockHeight(h))
	leaderIdx := w.LeaderIdx(h, pv)
	ppr := a.ref(TPP, h, pv, b.Hash())
	pr := a.ref(TP, h, pv, b.Hash())
	var pps SigSpec
	if a.owns(leaderIdx) {
		pps = a.signedRef(leaderIdx, ppr)
	} else {
		pps = SigSpec{ID: w.IDs[leaderIdx], Sig: []byte("forged-signature-of-the-leader!!")}
	}
	var ps []SigSpec
	for _, m := range com {
		i := w.IdxOf(m.Id)
		if i == leaderIdx {
			continue
		}
		switch {
		case a.owns(i):
			ps = append(ps, a.signedRef(i, pr))
		case mode == 0: // garbage signatures in correct members' names
			ps = append(ps, SigSpec{ID: m.Id, Sig: []byte("forged-prepare-signature-xxxxxxx")})
		case mode == 1: // outsiders fill up
		}
	}
	if mode == 1 {
		for i := w.Cfg.N; i < len(w.IDs); i++ {
			ps = append(ps, a.signedRef(i, pr))
		}
	}
	return &ProofSpec{PP: ppr, PPSender: pps, P: pr, PSenders: ps}
}

// mixedProof: genuine PREPARE signatures (observed, for the block really proposed in view pv) under a PREPREPARE reference that a
// Byzantine ex-leader of pv signs for ANOTHER block x: the two references of the proof name different hashes.
func (a *Adversary) mixedProof(h, v uint64, x *fakes.Block) *ProofSpec {
	p, _ := a.bestProof(h, v, 0)
	if p == nil {
		return nil
	}
	leaderIdx := a.w.LeaderIdx(h, p.PP.V)
	if !a.owns(leaderIdx) {
		return nil
	}
	q := *p
	q.PP = a.ref(TPP, h, p.PP.V, x.Hash())
	q.PPSender = a.signedRef(leaderIdx, q.PP)
	return &q
}

// liftedProof: a certificate for block x in which the PREPREPARE reference is signed by a Byzantine ex-leader and the PREPARE
// signatures are genuine signatures of correct members - given for ANOTHER block in that view (bytes the receivers have verified before).
func (a *Adversary) liftedProof(h, v uint64, x *fakes.Block) *ProofSpec {
	p, _ := a.bestProof(h, v, 0)
	if p == nil {
		return nil
	}
	leaderIdx := a.w.LeaderIdx(h, p.PP.V)
	if !a.owns(leaderIdx) {
		return nil
	}
	q := *p
	q.PP = a.ref(TPP, h, p.PP.V, x.Hash())
	q.PPSender = a.signedRef(leaderIdx, q.PP)
	q.P = a.ref(TP, h, p.PP.V, x.Hash())
	return &q
}

// viewShiftedProof: genuine PREPARE signatures for block b given in view pv, under a PREPREPARE reference for the SAME block
// that claims a later view w < v led by the adversary: the proof would outrank genuinely higher ones.
func (a *Adversary) viewShiftedProof(h, v uint64) (*ProofSpec, *fakes.Block) {
	p, blk := a.bestProof(h, v, 0)
	if p == nil {
		return nil, nil
	}
	for wv := v - 1; wv > p.PP.V; wv-- {
		if li := a.w.LeaderIdx(h, wv); a.owns(li) {
			q := *p
			q.PP = a.ref(TPP, h, wv, p.PP.Hash)
			q.PPSender = a.signedRef(li, q.PP)
			q.PSenders = nil
			for _, ps := range p.PSenders { // the claimed view's leader must not be among the preparers
				if !primitives.MemberId(ps.ID).Equal(a.w.IDs[li]) {
					q.PSenders = append(q.PSenders, ps)
				}
			}
			return &q, blk
		}
	}
	return nil, nil
}

func (a *Adversary) vote(as int, h, v uint64, proof *ProofSpec) VoteSpec {
	vs := VoteSpec{Type: TVC, Inst: uint64(Instance) + a.instOff, H: h, V: v, Proof: proof}
	vs.Sender = SigSpec{ID: a.w.IDs[as], Sig: a.sign(as, h, vs.HeaderRaw())}
	return vs
}

func (a *Adversary) forgedVote(id primitives.MemberId, h, v uint64, proof *ProofSpec) VoteSpec {
	return VoteSpec{Type: TVC, Inst: uint64(Instance), H: h, V: v, Proof: proof, Sender: SigSpec{ID: id, Sig: []byte("forged-vote-signature-xxxxxxxxxx")}}
}

// Do performs one injection. Unknown / inapplicable specs are no-ops.
func (a *Adversary) Do(s *ByzSpec) {
	w := a.w
	if !a.owns(s.As) {
		return
	}
	if a.Disabled[s.Strat] {
		a.Excluded[s.Strat]++
		return
	}
	h, v := s.H, s.V
	if h == 0 || h > w.Cfg.MaxHeight {
		return
	}
	a.instOff = s.Inst
	defer func() { a.instOff = 0 }()
	switch s.Strat {
	case "pp": // A1/A2: (equivocating / stand-alone) PREPREPARE. P0 block, P1 header-hash mode
		if v > 0 && a.Disabled["pp:view>0"] {
			a.Excluded["pp:view>0"]++
			return
		}
		b := a.block(h, par(s, 0))
		hash := b.Hash()
		if par(s, 1) == 1 {
			hash = a.block(h, par(s, 0)+1).Hash()
		}
		r := a.ref(TPP, h, v, hash)
		a.Proposals = append(a.Proposals, AdvProposal{h, v, hash, b})
		a.inject("pp", &MsgSpec{Union: UPP, Ref: r, Sender: a.signedRef(s.As, r), Block: b}, s.To)
	case "support": // every Byzantine member PREPAREs and COMMITs one of the adversary's own earlier proposals. P0 which (from the end), P1 1=commits only
		if len(a.Proposals) == 0 {
			return
		}
		p := a.Proposals[len(a.Proposals)-1-par(s, 0)%len(a.Proposals)]
		leader := w.LeaderIdx(p.H, p.V)
		for _, b := range w.Cfg.Byz {
			if b != leader && par(s, 1) != 1 {
				r := a.ref(TP, p.H, p.V, p.Hash)
				a.inject("support-prepare", &MsgSpec{Union: UP, Ref: r, Sender: a.signedRef(b, r)}, s.To)
			}
			r := a.ref(TC, p.H, p.V, p.Hash)
			a.inject("support-commit", &MsgSpec{Union: UC, Ref: r, Sender: a.signedRef(b, r), Share: a.share(b, p.H)}, s.To)
		}
	case "follow": // every Byzantine member behaves like a correct one for once: it PREPAREs and COMMITs the latest proposal a correct leader made at this height
		var src *SentMsg
		for _, o := range w.Seen {
			if o.Meta.H == h && (o.Meta.Union == UPP || o.Meta.Union == UNV) && (src == nil || o.Meta.V >= src.Meta.V) {
				src = o
			}
		}
		if src == nil {
			return
		}
		leader := w.LeaderIdx(h, src.Meta.V)
		for _, b := range w.Cfg.Byz {
			if b != leader && par(s, 1) != 1 {
				r := a.ref(TP, h, src.Meta.V, []byte(src.Meta.Hash))
				a.inject("follow-prepare", &MsgSpec{Union: UP, Ref: r, Sender: a.signedRef(b, r)}, s.To)
			}
			r := a.ref(TC, h, src.Meta.V, []byte(src.Meta.Hash))
			a.inject("follow-commit", &MsgSpec{Union: UC, Ref: r, Sender: a.signedRef(b, r), Share: a.share(b, h)}, s.To)
		}
	case "liftall": // every PREPARE / COMMIT a correct member signed at (h,v) of one of the adversary's proposals is re-sent with the hash of that
		// proposal in place of the one it was signed for - sender and signature bytes untouched (bytes the receivers may have verified before)
		if len(a.Proposals) == 0 {
			return
		}
		p := a.Proposals[len(a.Proposals)-1-par(s, 0)%len(a.Proposals)]
		for _, o := range append([]*SentMsg{}, w.Seen...) {
			if (o.Meta.Union != UP && o.Meta.Union != UC) || o.Meta.H != p.H || o.Meta.V != p.V || o.Meta.Hash == string(p.Hash) {
				continue
			}
			sp := SpecOf(o.Raw)
			if sp == nil {
				continue
			}
			sp.Ref.Hash = p.Hash
			a.inject("lifted-signature", sp, s.To)
		}
	case "votes": // every Byzantine member sends a plain (proof-less) or best-proof VIEW_CHANGE for (h, v) to that view's leader
		for _, b := range w.Cfg.Byz {
			var proof *ProofSpec
			var blk *fakes.Block
			if par(s, 0) == 1 {
				proof, blk = a.bestProof(h, v, 0)
			}
			if par(s, 0) == 2 { // a block attached to a vote that carries no proof at all (no correct node ever sends that)
				blk = a.block(h, par(s, 1))
			}
			vs := a.vote(b, h, v, proof)
			a.inject("votes", &MsgSpec{Union: UVC, Vote: &vs, Block: blk}, 1<<uint(w.LeaderIdx(h, v)))
		}
	case "prepare": // A4
		r := a.ref(TP, h, v, a.block(h, par(s, 0)).Hash())
		a.inject("prepare", &MsgSpec{Union: UP, Ref: r, Sender: a.signedRef(s.As, r)}, s.To)
	case "commit": // A4: P0 block, P1 share mode
		r := a.ref(TC, h, v, a.block(h, par(s, 0)).Hash())
		share := a.share(s.As, h)
		switch par(s, 1) {
		case 1:
			share = []byte("garbage-share")
		case 2:
			share = a.w.Reg.ShareAs(w.IDs[s.As], primitives.BlockHeight(h+1), ref.SeedBytes(w.SeedAt(h)))
		}
		a.inject("commit", &MsgSpec{Union: UC, Ref: r, Sender: a.signedRef(s.As, r), Share: share}, s.To)
	case "vc": // A5: VIEW_CHANGE to the leader of v. P0 proof mode, P1 block mode
		var proof *ProofSpec
		var blk *fakes.Block
		switch par(s, 0) {
		case 1:
			proof, blk = a.bestProof(h, v, 0)
		case 2:
			blk = a.block(h, par(s, 2))
			pv := uint64(0)
			if v > 0 {
				pv = uint64(par(s, 3)) % v
			}
			proof = a.forgedProof(s.As, h, pv, blk, par(s, 4)%2)
		case 3: // proof of a view that is not earlier
			blk = a.block(h, par(s, 2))
			proof = a.forgedProof(s.As, h, v+uint64(par(s, 3)%2), blk, 0)
		case 4: // genuine PREPARE signatures under a PREPREPARE reference for another block
			blk = a.block(h, par(s, 2))
			proof = a.mixedProof(h, v, blk)
			if proof == nil {
				blk = nil
			}
		}
		switch par(s, 1) {
		case 1:
			blk = nil
		case 2:
			blk = a.block(h, par(s, 2)+1)
		}
		vs := a.vote(s.As, h, v, proof)
		if par(s, 4)%4 == 3 { // a correctly signed vote whose header carries another message type
			vs.Type = []uint16{TC, TP, TNV, TPP}[par(s, 3)%4]
			vs.Sender = SigSpec{ID: w.IDs[s.As], Sig: a.sign(s.As, h, vs.HeaderRaw())}
		}
		to := s.To
		if par(s, 5) == 0 { // normally addressed to the leader of v
			to = 1 << uint(w.LeaderIdx(h, v))
		}
		a.inject("vc", &MsgSpec{Union: UVC, Vote: &vs, Block: blk}, to)
	case "nv": // A3: NEW_VIEW assembly
		a.newView(s)
	case "replay": // A6: re-send anything seen, optionally re-wrapped. P0 index, P1 mode, P2 new union
		if len(w.Seen) == 0 {
			return
		}
		src := w.Seen[par(s, 0)%len(w.Seen)]
		switch par(s, 1) {
		case 0:
			a.injectRaw("replay", src.Raw, s.To)
		case 1: // re-wrap PP/P/C header+signature into another envelope
			sp := SpecOf(src.Raw)
			if sp == nil || sp.Union > UC {
				return
			}
			sp.Union = par(s, 2) % 3
			if sp.Union == UC && len(sp.Share) == 0 {
				// re-use a share of that sender observed at this height (shares are per height, not per view/hash)
				for _, o := range w.Seen {
					if o.Meta.Union == UC && o.Meta.H == src.Meta.H && o.Meta.Sender == src.Meta.Sender {
						sp.Share = cp(protocol.LeanhelixContentReader(o.Raw.Content).CommitMessage().Share())
					}
				}
			}
			a.inject("rewrap", sp, s.To)
		case 4: // a genuine signature lifted onto other content: sender and signature bytes of an observed PP/P/C stay, the hash (or view) changes
			sp := SpecOf(src.Raw)
			if sp == nil || sp.Union > UC {
				return
			}
			if par(s, 3)%3 == 0 {
				sp.Ref.V++
			} else {
				blk := a.block(src.Meta.H, par(s, 2))
				sp.Ref.Hash = blk.Hash()
				if sp.Union == UPP {
					sp.Block = blk
				}
			}
			a.inject("lifted-signature", sp, s.To)
		case 3: // tamper with a genuine NEW_VIEW: header, votes and leader signature untouched, the embedded proposal and the block replaced
			var nvs []*SentMsg
			for _, o := range w.Seen {
				if o.Meta.Union == UNV {
					nvs = append(nvs, o)
				}
			}
			if len(nvs) == 0 {
				return
			}
			src = nvs[par(s, 0)%len(nvs)]
			sp := SpecOf(src.Raw)
			if sp == nil || sp.PPRef == nil || sp.PPSend == nil {
				return
			}
			blk := a.block(src.Meta.H, par(s, 2))
			pr := *sp.PPRef
			pr.Hash = blk.Hash()
			ps := SigSpec{ID: sp.PPSend.ID, Sig: []byte("forged-proposal-signature-xxxxxx")}
			if par(s, 3)%2 == 1 {
				ps.Sig = a.sign(s.As, pr.H, pr.Raw())
			}
			sp.PPRef, sp.PPSend, sp.Block = &pr, &ps, blk
			a.Proposals = append(a.Proposals, AdvProposal{pr.H, pr.V, pr.Hash, blk})
			a.inject("tampered-newview", sp, s.To)
		case 2: // genuine content, different block attached
			sp := SpecOf(src.Raw)
			if sp == nil {
				return
			}
			sp.Block = a.block(src.Meta.H, par(s, 2))
			a.inject("replay-other-block", sp, s.To)
		}
	}
}

// newView builds a NEW_VIEW from s.As for (h,v).
// P0 vote mode: 0 genuine seen votes + own (+ other Byzantine) votes; 1 additionally forged votes in correct members' names;
//
//	2 own + outsider votes only; 3 genuine votes only
//
// P1 proof mode for the adversary's own votes: 0 none, 1 best genuine proof, 2 a lower genuine proof, 3 forged proof
// P2 proposal: 0..k block choice; 9 = block of the highest proof among the votes
// P3 embedded header mode: 0 consistent; 1 embedded hash differs from the attached block; 2 embedded view v+1; 3 signed by non-leader key
// P4 drop genuine votes that carry a proof (1) / keep (0)
func (a *Adversary) newView(s *ByzSpec) {
	if s.Tailor && a.tailorFor < 0 {
		for i := 0; i < a.w.Cfg.N; i++ {
			if s.To>>uint(i)&1 == 1 && a.w.IsCorrect(i) {
				one := *s
				one.To = 1 << uint(i)
				a.tailorFor = i
				a.newView(&one)
			}
		}
		a.tailorFor = -1
		return
	}
	w := a.w
	h, v := s.H, s.V
	if v == 0 {
		return
	}
	com := w.Committee(primitives.BlockHeight(h))
	hdrOff := a.instOff
	if s.HdrOnly {
		a.instOff = 0 // votes and proofs are made for this instance; only the outer header is foreign
	}
	var votes []VoteSpec
	var voteBlocks []*fakes.Block
	mode := par(s, 0) % 4
	if mode == 1 && a.Disabled["nv:forged-votes"] {
		a.Excluded["nv:forged-votes"]++
		return
	}
	have := map[string]bool{}
	if par(s, 0) == 4 && h > 1 { // genuine votes of the PREVIOUS height (any view there), byte for byte, under a NEW_VIEW of this height
		seen := map[string]bool{}
		for _, o := range w.Seen {
			if o.Meta.Union == UVC && o.Meta.H == h-1 && !seen[o.Meta.Sender] {
				seen[o.Meta.Sender] = true
				have[o.Meta.Sender] = true
				votes = append(votes, VoteOf(protocol.LeanhelixContentReader(o.Raw.Content).ViewChangeMessage()))
				voteBlocks = append(voteBlocks, nil)
			}
		}
	}
	if mode != 2 {
		gv, gb := a.seenVotes(h, v)
		for i := range gv {
			if par(s, 4) == 1 && gv[i].Proof != nil {
				continue
			}
			votes = append(votes, gv[i])
			voteBlocks = append(voteBlocks, gb[i])
			have[string(gv[i].Sender.ID)] = true
		}
	}
	var ownProof *ProofSpec
	var ownBlock *fakes.Block
	switch par(s, 1) % 7 {
	case 6: // both references name another block; the PREPARE signatures are genuine ones lifted from the block really prepared
		ownBlock = a.block(h, par(s, 2))
		if ownProof = a.liftedProof(h, v, ownBlock); ownProof == nil {
			ownBlock = nil
		}
	case 5: // a lower genuine certificate dressed up as a higher view
		ownProof, ownBlock = a.viewShiftedProof(h, v)
	case 1:
		ownProof, ownBlock = a.bestProof(h, v, 0)
	case 2:
		ownProof, ownBlock = a.bestProof(h, v, 1)
	case 3:
		ownBlock = a.block(h, par(s, 2))
		ownProof = a.forgedProof(s.As, h, uint64(par(s, 5))%v, ownBlock, 0)
	case 4: // genuine PREPARE signatures under a PREPREPARE reference for another block (which then gets re-proposed)
		ownBlock = a.block(h, par(s, 2))
		if ownProof = a.mixedProof(h, v, ownBlock); ownProof == nil {
			ownBlock = nil
		}
	}
	if ownProof != nil && a.tailorFor >= 0 { // drop the recipient's own PREPARE signature from the certificate
		q := *ownProof
		q.PSenders = nil
		for _, ps := range ownProof.PSenders {
			if !primitives.MemberId(ps.ID).Equal(w.IDs[a.tailorFor]) {
				q.PSenders = append(q.PSenders, ps)
			}
		}
		ownProof = &q
	}
	if mode != 3 {
		for _, b := range w.Cfg.Byz {
			if !have[string(w.IDs[b])] {
				have[string(w.IDs[b])] = true
				votes = append(votes, a.vote(b, h, v, ownProof))
				voteBlocks = append(voteBlocks, ownBlock)
			}
		}
	}
	if mode == 2 {
		for i := w.Cfg.N; i < len(w.IDs); i++ {
			votes = append(votes, a.vote(i, h, v, nil))
			voteBlocks = append(voteBlocks, nil)
		}
	}
	if mode == 1 {
		for _, m := range com {
			if !have[string(m.Id)] {
				have[string(m.Id)] = true
				votes = append(votes, a.forgedVote(m.Id, h, v, nil))
				voteBlocks = append(voteBlocks, nil)
			}
		}
	}
	if par(s, 5)%2 == 1 && len(votes) > 1 { // the adversary's own votes first (matters when several proofs claim the same view)
		var mine, others []VoteSpec
		var mineB, othersB []*fakes.Block
		for i, vt := range votes {
			if a.owns(w.IdxOf(primitives.MemberId(vt.Sender.ID))) {
				mine, mineB = append(mine, vt), append(mineB, voteBlocks[i])
			} else {
				others, othersB = append(others, vt), append(othersB, voteBlocks[i])
			}
		}
		votes, voteBlocks = append(mine, others...), append(mineB, othersB...)
	}
	// proposal
	var blk *fakes.Block
	if par(s, 2) == 9 {
		var bestV int64 = -1
		for i, vt := range votes {
			if vt.Proof != nil && int64(vt.Proof.PP.V) > bestV && voteBlocks[i] != nil {
				bestV = int64(vt.Proof.PP.V)
				blk = voteBlocks[i]
			}
		}
	}
	if par(s, 2) == 8 { // the block of the LOWEST proof among the votes (ignores a higher lock)
		var lowV int64 = 1 << 62
		for i, vt := range votes {
			if vt.Proof != nil && int64(vt.Proof.PP.V) < lowV && voteBlocks[i] != nil {
				lowV = int64(vt.Proof.PP.V)
				blk = voteBlocks[i]
			}
		}
	}
	if blk == nil {
		blk = a.block(h, par(s, 2))
	}
	hash := blk.Hash()
	ppv := v
	switch par(s, 3) % 4 {
	case 1:
		hash = a.block(h, par(s, 2)+1).Hash()
	case 2:
		ppv = v + 1
	}
	if par(s, 3) == 5 { // the signed proposal names the chosen (e.g. proven) hash, but ANOTHER block object is attached to the message
		blk = a.block(h, par(s, 2)+1)
		if blk.Hash().Equal(hash) {
			blk = a.block(h, par(s, 2)+2)
		}
	}
	a.instOff = hdrOff
	ppr := a.ref(TPP, h, ppv, hash)
	signer := s.As
	if par(s, 3)%4 == 3 && len(w.Cfg.Byz) > 1 {
		for _, b := range w.Cfg.Byz {
			if b != s.As {
				signer = b
			}
		}
	}
	pps := a.signedRef(signer, ppr)
	if par(s, 3) == 4 { // embedded proposal claims the legitimate leader of v as its sender, but the signature is not that leader's
		li := w.LeaderIdx(h, v)
		pps = SigSpec{ID: w.IDs[li], Sig: []byte("forged-proposal-signature-xxxxxx")}
		if li != s.As && par(s, 5) >= 5 {
			pps.Sig = a.sign(s.As, h, ppr.Raw()) // a genuine signature - of somebody else
		}
	}
	spec := &MsgSpec{Union: UNV, NVType: TNV, NVInst: uint64(Instance) + a.instOff, NVH: h, NVV: v, Votes: votes, PPRef: &ppr, PPSend: &pps, Block: blk}
	spec.Sender = SigSpec{ID: w.IDs[s.As], Sig: a.sign(s.As, h, spec.NVHeaderRaw())}
	a.Proposals = append(a.Proposals, AdvProposal{h, ppv, hash, blk})
	a.inject(fmt.Sprintf("nv:votes%d:proof%d:pp%d", mode, par(s, 1)%7, par(s, 3)%4), spec, s.To)
}
