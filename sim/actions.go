package sim

// Action is one scheduler / adversary step. A case is a Config plus a list of Actions; Apply is deterministic given the
// world state (up to Go map iteration inside the implementation, which only affects the order of entries inside proofs).
type Action struct {
	K    string    `json:"k"` // deliver | drop | dup | run | timeout | timeouts | hold | release | byz | sync | stale
	ID   int       `json:"id,omitempty"`
	Node int       `json:"node,omitempty"`
	N    int       `json:"n,omitempty"`
	Mask uint16    `json:"mask,omitempty"`
	H    uint64    `json:"h,omitempty"`
	V    uint64    `json:"v,omitempty"`
	Hold *HoldRule `json:"hold,omitempty"`
	Byz  *ByzSpec  `json:"byz,omitempty"`
	D    int       `json:"d,omitempty"` // timeout / sync: the main loop handles the event now (contexts are cancelled), the worker picks it up only after D further deliveries to that node
}

// Apply executes one action (a no-op if it is not applicable in the current state) and records it in the trace.
func (w *World) Apply(a Action) {
	if w.Viol != nil {
		return
	}
	w.Trace = append(w.Trace, a)
	w.Steps++
	switch a.K {
	case "deliver":
		if i, m := w.find(a.ID); m != nil {
			w.remove(i)
			w.deliver(m)
		}
	case "drop":
		if i, m := w.find(a.ID); m != nil {
			w.remove(i)
		}
	case "dup":
		if _, m := w.find(a.ID); m != nil {
			w.Mon.noteDup(m)
			w.deliver(m) // stays in the pool: will be delivered again
		}
	case "run":
		for k := 0; k < a.N && w.Viol == nil; k++ {
			ids := w.Deliverable()
			if len(ids) == 0 {
				break
			}
			i, m := w.find(ids[0])
			w.remove(i)
			w.deliver(m)
		}
	case "timeout":
		w.timeoutD(a.Node, a.D)
	case "timeouts":
		for i := 0; i < w.Cfg.N && w.Viol == nil; i++ {
			if a.Mask>>uint(i)&1 == 1 {
				w.timeout(i)
			}
		}
	case "hold":
		if a.Hold != nil {
			w.Holds = append(w.Holds, *a.Hold)
		}
	case "dropheld": // every currently held message is lost for good
		var keep []*Msg
		for _, m := range w.Pool {
			if !w.held(m) {
				keep = append(keep, m)
			}
		}
		w.Pool = keep
	case "release":
		w.Holds = nil
	case "sync":
		w.syncD(a.Node, a.N, a.H, a.D)
	case "catchup": // a block-sync service: every live correct node in Mask that is behind gets the block+proof of its current height from a correct node that committed it
		for i := 0; i < w.Cfg.N && w.Viol == nil; i++ {
			if a.Mask>>uint(i)&1 == 0 || !w.IsCorrect(i) || w.Nodes[i].Crashed {
				continue
			}
			h := w.Nodes[i].H()
			for _, src := range w.CorrectLive() {
				if src != i && w.Nodes[src].committedAt(h) {
					w.sync(i, src, h)
					break
				}
			}
		}
	case "byz":
		if a.Byz != nil {
			w.Adv.Do(a.Byz)
		}
		for k := 0; k < a.N && w.Viol == nil; k++ { // optionally let the network run right after the injection
			ids := w.Deliverable()
			if len(ids) == 0 {
				break
			}
			i, m := w.find(ids[0])
			w.remove(i)
			w.deliver(m)
		}
	}
}

func (n *Node) committedAt(h uint64) bool {
	for _, c := range n.Commits {
		if c.H == h {
			return true
		}
	}
	return false
}

// RunCase replays a whole case from scratch.
func RunCase(cfg Config, actions []Action) *World {
	w := NewWorld(cfg)
	w.Start()
	for _, a := range actions {
		if w.Viol != nil {
			break
		}
		w.Apply(a)
	}
	w.Mon.AtEnd()
	return w
}

// Case is the JSON form of a simulator case (the replay unit).
type Case struct {
	Cfg     Config   `json:"cfg"`
	Actions []Action `json:"actions"`
}
