package sim

import (
	"bytes"
	"context"
	"fmt"
	"strings"

	"github.com/orbs-network/lean-helix-go/services/interfaces"
	"github.com/orbs-network/lean-helix-go/spec/types/go/primitives"
	"github.com/orbs-network/lean-helix-go/spec/types/go/protocol"

	"verif/ev"
	"verif/fakes"
	"verif/ref"
)

type hv struct{ H, V uint64 }
type hvx struct {
	H, V uint64
	X    string
}

type nodeMon struct {
	proposals             map[hv]string
	prepares              map[hv]string
	commits               map[hv]string
	lastVC                map[uint64]int64
	gotPP                 map[hvx]bool
	gotP                  map[hvx]map[string]bool
	gotC                  map[hvx]map[string]bool
	lastH                 uint64
	lastV                 uint64
	proofFor              map[uint64][]byte
	blockFor              map[uint64]*fakes.Block
	regSeen               int
	sawTwoProposals       bool
	sawDup                bool
	commitQBeforePrepared bool
	preparedIn            map[hv]string // (height, view) -> hash: views in which the node sent its COMMIT while its own storage held a prepared certificate
}

type Pre struct {
	H, V       uint64
	StoreLen   int
	SentLen    int
	CommitsLen int
	ValLen     int
	PropLen    int
	RoundsLen  int
}

type Monitors struct {
	w         *World
	focus     string
	committed map[uint64]*fakes.Block
	committer map[uint64]int
	per       map[int]*nodeMon
	dupIDs    map[int]bool
	cur       map[int]Pre // state of each node at the start of the event being processed
	// non-triviality facts, read by the property wrappers
	Facts map[string]int
}

func newMonitors(w *World) *Monitors {
	m := &Monitors{w: w, focus: w.Cfg.Focus, committed: map[uint64]*fakes.Block{}, committer: map[uint64]int{}, per: map[int]*nodeMon{}, dupIDs: map[int]bool{}, cur: map[int]Pre{}, Facts: map[string]int{}}
	for i, n := range w.Nodes {
		if n != nil {
			m.per[i] = &nodeMon{proposals: map[hv]string{}, prepares: map[hv]string{}, commits: map[hv]string{}, lastVC: map[uint64]int64{},
				gotPP: map[hvx]bool{}, gotP: map[hvx]map[string]bool{}, gotC: map[hvx]map[string]bool{}, proofFor: map[uint64][]byte{}, blockFor: map[uint64]*fakes.Block{}, preparedIn: map[hv]string{}}
		}
	}
	return m
}

func (m *Monitors) on(p string) bool {
	if m.focus == "C18" && (p == "C07" || p == "C08" || p == "C10") {
		return true // C18's behavioural check: the role (leader) clauses of these oracles, reported as C18
	}
	return m.focus == p || m.focus == "ALL"
}

func (m *Monitors) fail(prop, kind, format string, a ...interface{}) {
	if m.w.Viol != nil {
		return
	}
	if !m.on(prop) {
		return
	}
	if m.focus == "C18" && prop != "C18" {
		if !strings.Contains(kind, "leader") {
			return // only the leader-role clauses belong to C18
		}
		prop, kind = "C18", "wrong-leader-role:"+kind
	}
	m.w.Viol = &ev.Violation{Property: prop, Kind: kind, Detail: fmt.Sprintf(format, a...), Replayer: "SIM"}
}

func (m *Monitors) pre(n *Node) Pre {
	p := m.pre0(n)
	m.cur[n.Idx] = p
	return p
}

func (m *Monitors) pre0(n *Node) Pre {
	return Pre{H: n.H(), V: n.V(), StoreLen: len(n.Sto.Log), SentLen: len(n.Sent), CommitsLen: len(n.Commits), ValLen: len(n.BU.Validates), PropLen: len(n.BU.Proposals), RoundsLen: len(n.Rounds)}
}

func (m *Monitors) noteDup(msg *Msg) { m.dupIDs[msg.ID] = true; m.Facts["dup"]++ }

func (m *Monitors) onPanic(n *Node, r string) {
	m.fail("C12", "panic-in-node", "node %d panicked: %s", n.Idx, r)
}

func commitmentOK(block interfaces.Block, hash primitives.BlockHash) bool {
	b := fakes.AsBlock(block)
	return b != nil && b.Hash().Equal(hash)
}

// ---------------------------------------------------------------- commit-time oracles (C01, C03, C04, C13)

func (m *Monitors) onCommit(n *Node, c Commit, ctx context.Context) {
	w := m.w
	nm := m.per[n.Idx]
	nm.proofFor[c.H+1] = c.Proof
	nm.blockFor[c.H+1] = c.Block
	// C13: commit heights strictly increase
	if k := len(n.Commits); k >= 2 && n.Commits[k-2].H >= c.H {
		m.fail("C13", "commit-height-not-increasing", "node %d committed height %d after height %d", n.Idx, c.H, n.Commits[k-2].H)
	}
	// C15(c): the commit callback's context is live
	if ctx.Err() != nil {
		m.fail("C15", "commit-callback-ctx-cancelled", "node %d: commit callback for height %d got an already cancelled context", n.Idx, c.H)
	}
	// C01: agreement
	if c.Block == nil {
		m.fail("C04", "nil-block-committed", "node %d committed a nil block at height %d", n.Idx, c.H)
		return
	}
	if first, ok := m.committed[c.H]; ok {
		if !first.Hash().Equal(c.Block.Hash()) {
			m.fail("C01", "disagreement", "height %d: node %d committed %s, node %d committed %s", c.H, m.committer[c.H], first, n.Idx, c.Block)
		}
	} else {
		m.committed[c.H] = c.Block
		m.committer[c.H] = n.Idx
	}
	com := w.Committee(primitives.BlockHeight(c.H))
	var pref *protocol.BlockRef
	if len(c.Proof) > 0 {
		pref = protocol.BlockProofReader(c.Proof).BlockRef()
	}
	// C20: the block proof generated from the stored COMMIT messages - every signer's signature (verified when its COMMIT was stored)
	// still verifies over the block reference re-read from the proof bytes
	if m.on("C20") && len(c.Proof) > 0 {
		bp := protocol.BlockProofReader(append([]byte{}, c.Proof...))
		it := bp.NodesIterator()
		for it.HasNext() {
			s := it.NextNodes()
			m.Facts["c20-nested-signatures-checked"]++
			if !w.Reg.VerifyMsg(primitives.BlockHeight(c.H), bp.BlockRef().Raw(), s.MemberId(), s.Signature()) {
				m.fail("C20", "block-proof-signature-does-not-verify", "node %d: the block proof handed to the commit callback at height %d lists a signature of %q that does not verify over the proof's block reference (view %d)", n.Idx, c.H, s.MemberId(), bp.BlockRef().View())
			}
		}
	}
	// C03: strict validation on a different correct node + reference validator
	if m.on("C03") {
		var prevBlock interfaces.Block
		if pb := nm.blockFor[c.H]; pb != nil {
			prevBlock = pb
		}
		prevProof := nm.proofFor[c.H]
		for j, peer := range w.Nodes {
			if peer == nil || j == n.Idx {
				continue
			}
			if err := peer.VN.Worker().ValidateBlockConsensus(context.Background(), c.Block, c.Proof, prevBlock, prevProof, false); err != nil {
				m.fail("C03", "committed-proof-rejected-by-peer", "node %d committed (block %s, proof) at height %d view %d that strict ValidateBlockConsensus on node %d rejects: %v", n.Idx, c.Block, c.H, c.View, j, err)
			}
			break
		}
		if v := w.Env.ValidBlockProof(c.Proof, c.Block, com, prevProof, false, commitmentOK); !v.OK {
			m.fail("C03", "committed-proof-invalid:"+v.Why, "node %d committed (block %s, proof) at height %d that the reference validator rejects: %s", n.Idx, c.Block, c.H, v.Why)
		}
		if m.commitLogForeign(n, c) || (pref != nil && pref.View() > 0) {
			m.Facts["c03-nontrivial"]++
		}
	}
	// C04: external validity
	if m.on("C04") {
		if uint64(c.Block.H) != c.H {
			m.fail("C04", "wrong-height-block-committed", "node %d committed block %s at height %d", n.Idx, c.Block, c.H)
		}
		if !c.Block.Valid {
			m.fail("C04", "consumer-invalid-block-committed", "node %d committed %s, a block every correct validator rejects", n.Idx, c.Block)
		}
		if pref == nil || !c.Block.Hash().Equal(pref.BlockHash()) {
			m.fail("C04", "block-does-not-match-certified-hash", "node %d height %d: delivered block %s does not satisfy the hash in the proof", n.Idx, c.H, c.Block)
		} else {
			if !m.proposalByLeaderExists(c.H, uint64(pref.View()), pref.BlockHash()) {
				m.fail("C04", "no-proposal-by-legitimate-leader", "node %d height %d view %d: no PREPREPARE for the committed hash signed by that view's leader exists in the history", n.Idx, c.H, pref.View())
			}
			if !m.consumerApproved(c.H, c.Block) {
				m.fail("C04", "never-consumer-approved", "node %d committed %s at height %d but no correct member's ValidateBlockProposal approved it nor did a correct member propose it", n.Idx, c.Block, c.H)
			}
		}
	}
}

// commitLogForeign: at commit time the node's commit log for that height contained a COMMIT from a Byzantine member / outsider or from another view.
func (m *Monitors) commitLogForeign(n *Node, c Commit) bool {
	var pv uint64
	if len(c.Proof) > 0 {
		pv = uint64(protocol.BlockProofReader(c.Proof).BlockRef().View())
	}
	for _, e := range n.Sto.Log {
		if e.Kind == "C" && uint64(e.H) == c.H && e.Stored {
			idx := m.w.IdxOf(primitives.MemberId(e.Sender))
			if !m.w.IsCorrect(idx) || uint64(e.V) != pv {
				return true
			}
		}
	}
	return false
}

func (m *Monitors) proposalByLeaderExists(h, v uint64, hash primitives.BlockHash) bool {
	w := m.w
	leader := ref.Leader(primitives.View(v), w.Committee(primitives.BlockHeight(h)))
	check := func(raw *interfaces.ConsensusRawMessage) bool {
		r := protocol.LeanhelixContentReader(raw.Content)
		var pp *protocol.PreprepareContent
		if r.IsMessagePreprepareMessage() {
			pp = r.PreprepareMessage()
		} else if r.IsMessageNewViewMessage() {
			pp = r.NewViewMessage().Message()
		}
		if pp == nil || len(pp.Raw()) == 0 {
			return false
		}
		hd := pp.SignedHeader()
		return uint64(hd.BlockHeight()) == h && uint64(hd.View()) == v && hd.BlockHash().Equal(hash) && hd.MessageType() == protocol.LEAN_HELIX_PREPREPARE &&
			pp.Sender().MemberId().Equal(leader) && w.Reg.VerifyMsg(hd.BlockHeight(), hd.Raw(), pp.Sender().MemberId(), pp.Sender().Signature())
	}
	for _, s := range w.Seen {
		if (s.Meta.Union == UPP || s.Meta.Union == UNV) && s.Meta.H == h && check(s.Raw) {
			return true
		}
	}
	for _, s := range w.AdvSent {
		if (s.Meta.Union == UPP || s.Meta.Union == UNV) && check(s.Raw) {
			return true
		}
	}
	return false
}

func (m *Monitors) consumerApproved(h uint64, b *fakes.Block) bool {
	for _, n := range m.w.Nodes {
		if n == nil {
			continue
		}
		if pb, ok := n.BU.Proposed[b.ID]; ok && pb.Hash().Equal(b.Hash()) {
			return true
		}
		for _, vc := range n.BU.Validates {
			if vc.OK && uint64(vc.H) == h && vc.BlockID == b.ID && vc.Hash == string(b.Hash()) {
				return true
			}
		}
	}
	return false
}

func (m *Monitors) onRound(n *Node, r Round) {
	k := len(n.Rounds)
	if k >= 2 && n.Rounds[k-2].H >= r.H {
		m.fail("C13", "round-height-not-increasing", "node %d: new-round callback for height %d after height %d", n.Idx, r.H, n.Rounds[k-2].H)
	}
	for _, c := range n.Commits {
		if c.H >= r.H {
			m.fail("C13", "round-not-above-committed-height", "node %d: round for height %d after a commit callback for height %d", n.Idx, r.H, c.H)
		}
	}
}

// ---------------------------------------------------------------- per-step invariants (C13, C15c, C17)

func (m *Monitors) stepInvariants(n *Node, pre Pre) {
	nm := m.per[n.Idx]
	h, v := n.H(), n.V()
	// heights the node has (had) a term for: those it reported a new consensus round for - the round callback comes before the term
	// sees any message. (The state's height alone is not enough: a node whose height moved without a term being started for it
	// still has the previous height's term installed.)
	termHeights := map[uint64]bool{}
	for _, r := range n.Rounds {
		termHeights[r.H] = true
	}
	if h < pre.H || (h == pre.H && v < pre.V) {
		m.fail("C13", "height-view-went-back", "node %d: (h,v) went from (%d,%d) to (%d,%d)", n.Idx, pre.H, pre.V, h, v)
	}
	nm.lastH, nm.lastV = h, v
	// C13: election registrations are lexicographically non-decreasing and the first one of a new height is view 0
	for ; nm.regSeen < len(n.Sch.Log); nm.regSeen++ {
		r := n.Sch.Log[nm.regSeen]
		if nm.regSeen > 0 {
			p := n.Sch.Log[nm.regSeen-1]
			if r.H < p.H || (r.H == p.H && r.V < p.V) {
				m.fail("C13", "registration-went-back", "node %d registered election (%d,%d) after (%d,%d)", n.Idx, r.H, r.V, p.H, p.V)
			}
			if r.H > p.H && r.V != 0 {
				m.fail("C13", "view-not-reset-on-new-height", "node %d: first election registration of height %d has view %d", n.Idx, r.H, r.V)
			}
		}
	}
	// C15(c): every SPI call made during this step got a live context (single-threaded mode: exact)
	for _, vc := range n.BU.Validates[pre.ValLen:] {
		if vc.CtxErr {
			m.fail("C15", "spi-called-with-cancelled-ctx", "node %d: ValidateBlockProposal(h=%d) entered with a cancelled context", n.Idx, vc.H)
		}
	}
	for _, pc := range n.BU.Proposals[pre.PropLen:] {
		if pc.CtxErr {
			m.fail("C15", "spi-called-with-cancelled-ctx", "node %d: RequestNewBlockProposal(h=%d) entered with a cancelled context", n.Idx, pc.H)
		}
	}
	// C08 (store-time invariants, independent of which delivery caused the store): whatever a correct node stores is for this
	// instance, from a committee member of that height, with a valid signature and the header tag of its kind
	if m.on("C08") {
		for _, e := range n.Sto.Log[pre.StoreLen:] {
			if !e.Stored || e.Sender == string(n.ID) {
				continue
			}
			if !termHeights[uint64(e.H)] {
				m.fail("C08", "stored-unauthorised-message:"+e.Kind+":height", "node %d (height %d at the start of this step, %d at its end) stored a %s(h=%d,v=%d) claimed from %q: not a message for a height the node was working on", n.Idx, pre.H, h, e.Kind, e.H, e.V, e.Sender)
			}
			if why := m.storedMessageOK(e); why != "" {
				m.fail("C08", "stored-unauthorised-message:"+e.Kind+":"+why, "node %d stored a %s(h=%d,v=%d) claimed from %q that must not influence it: %s", n.Idx, e.Kind, e.H, e.V, e.Sender, why)
			}
		}
	}
	// C07 (store-time invariant, independent of when the effect happens - e.g. while a future cache is drained): a proposal for
	// a view > 0 that the node did not author is stored only if a NEW_VIEW carrying it that passes the reference certificate
	// check for THIS instance, this height and that view has been delivered to the node
	if m.on("C07") {
		for _, e := range n.Sto.Log[pre.StoreLen:] {
			if e.Kind == "PP" && e.Stored && e.V > 0 && e.Sender != string(n.ID) {
				if why := m.backedByValidNewView(n, e); why != "" {
					if m.standalonePreprepareDelivered(n, e) {
						// the proposal came in as a stand-alone PREPREPARE: the known root cause K1, reported under its own kind
						m.fail("C07", "standalone-preprepare-adopted", "node %d stored a proposal for view %d delivered as a stand-alone PREPREPARE, without a NEW_VIEW certificate", n.Idx, e.V)
						continue
					}
					m.fail("C07", "proposal-adopted-without-valid-new-view:"+why, "node %d stored a proposal for (h=%d,v=%d) from %q although no NEW_VIEW delivered to it for that (instance, height, view) passes the reference certificate check (%s)", n.Idx, e.H, e.V, e.Sender, why)
				}
			}
		}
	}
	// C17 (node level): the consumer is asked about a proposal of height H by the term of height H - the prevBlock the library hands
	// over is the block that term was started from (a call for H made with the previous block of another height comes from another
	// height's term, i.e. a message reached the protocol logic of a term of the wrong height)
	if m.on("C17") {
		for _, vc := range n.BU.Validates[pre.ValLen:] {
			if want := fakes.BlockID(m.prevBlockOf(n, uint64(vc.H))); vc.PrevID != want {
				m.fail("C17", "proposal-handled-by-term-of-other-height", "node %d: ValidateBlockProposal for height %d was called with prevBlock %q, but the term of that height was started from %q", n.Idx, vc.H, vc.PrevID, want)
			}
		}
		for _, pc := range n.BU.Proposals[pre.PropLen:] {
			if want := fakes.BlockID(m.prevBlockOf(n, uint64(pc.H))); pc.PrevID != want {
				m.fail("C17", "proposal-handled-by-term-of-other-height", "node %d: RequestNewBlockProposal for height %d was called with prevBlock %q, but the term of that height was started from %q", n.Idx, pc.H, pc.PrevID, want)
			}
		}
	}
	// C17 (node level): nothing is stored for a height the node was not at during this step; and a node that is not a member of a
	// height's committee has no term logic for that height at all - whatever stores or sends there is another height's term
	for _, sm := range n.Sent[pre.SentLen:] {
		if sm.Meta.OK && !m.w.InCommittee(n.Idx, sm.Meta.H) {
			m.fail("C17", "non-member-node-acted:send", "node %d is not in the committee of height %d but sent a %s for it: a message of that height reached the protocol logic of another height's term", n.Idx, sm.Meta.H, kindName(sm.Meta.Union))
		}
	}
	for _, e := range n.Sto.Log[pre.StoreLen:] {
		if !m.w.InCommittee(n.Idx, uint64(e.H)) {
			m.fail("C17", "non-member-node-acted:store", "node %d is not in the committee of height %d but its protocol logic handled a %s for it (Store call, stored=%v): a message of that height reached another height's term", n.Idx, e.H, e.Kind, e.Stored)
		}
		if !termHeights[uint64(e.H)] {
			m.fail("C17", "stored-for-other-height", "node %d at height %d..%d stored a %s for height %d", n.Idx, pre.H, h, e.Kind, e.H)
		}
		if e.Stored {
			idx := m.w.IdxOf(primitives.MemberId(e.Sender))
			if !m.w.IsCorrect(idx) {
				m.w.Obs.ByzStored++
			}
		}
	}
}

// backedByValidNewView: "" if some NEW_VIEW in the node's input history for exactly (height, view) of the stored proposal, with
// that proposal hash, is a valid certificate; otherwise the reason the best candidate fails.
func (m *Monitors) backedByValidNewView(n *Node, e fakes.StoreEvent) string {
	w := m.w
	com := w.Committee(e.H)
	why := "no-new-view-delivered"
	for _, in := range n.Inbox {
		if in.Kind != "msg" || in.Raw == nil {
			continue
		}
		meta := MetaOf(in.Raw)
		if !meta.OK || meta.Union != UNV || meta.H != uint64(e.H) || meta.V != uint64(e.V) || meta.Hash != e.Hash {
			continue
		}
		nv, ok := interfaces.ToConsensusMessage(in.Raw).(*interfaces.NewViewMessage)
		if !ok || nv == nil {
			continue
		}
		vd, _ := w.Env.ValidNewView(nv, e.H, com, commitmentOK, m.consumerOKAt(n, uint64(e.H)))
		if vd.OK {
			return ""
		}
		why = vd.Why
	}
	return why
}

// standalonePreprepareDelivered: the node's input history contains a stand-alone PREPREPARE for exactly the stored (height, view, hash).
func (m *Monitors) standalonePreprepareDelivered(n *Node, e fakes.StoreEvent) bool {
	for _, in := range n.Inbox {
		if in.Kind != "msg" || in.Raw == nil {
			continue
		}
		meta := MetaOf(in.Raw)
		if meta.OK && meta.Union == UPP && meta.H == uint64(e.H) && meta.V == uint64(e.V) && meta.Hash == e.Hash {
			return true
		}
	}
	return false
}

func (m *Monitors) onTimeout(n *Node, pre Pre) { m.stepInvariants(n, pre) }

func (m *Monitors) beforeSync(n *Node, c *Commit) {
	nm := m.per[n.Idx]
	nm.proofFor[c.H+1] = c.Proof
	nm.blockFor[c.H+1] = c.Block
}

func (m *Monitors) onSync(n *Node, c *Commit, pre Pre) {
	m.Facts["sync"]++
	m.stepInvariants(n, pre)
}

// SPISnap is what a consumer can observe of a node at its SPI boundary besides sends and callbacks.
type SPISnap struct {
	Active      bool
	Cur         fakes.Registration
	Stops, Regs int
	StoreLog    int
	Clears      int
	PP          bool // a proposal is stored for the node's current (height, view)
	Prepares    int  // PREPAREs stored for that proposal
}

func (m *Monitors) spiSnap(n *Node) SPISnap {
	var s SPISnap
	s.Active, s.Cur, s.Stops, s.Regs = n.Sch.Snap()
	s.StoreLog, s.Clears = n.Sto.NLog(), n.Sto.NClears()
	if pp, ok := n.Sto.GetPreprepareMessage(primitives.BlockHeight(n.H()), primitives.View(n.V())); ok {
		s.PP = true
		s.Prepares = len(n.Sto.GetPrepareSendersIds(primitives.BlockHeight(n.H()), primitives.View(n.V()), pp.Content().SignedHeader().BlockHash()))
	}
	return s
}

// C14: "syncs below the current height change nothing" - judged exactly in single-threaded mode: no send, no callback, no
// (height, view) change, the election registration untouched, nothing stored or cleared.
func (m *Monitors) staleSyncChangedNothing(n *Node, c *Commit, pre Pre, before SPISnap) {
	m.Facts["stale-sync"]++
	after := m.spiSnap(n)
	now := m.pre0(n)
	if now.H != pre.H || now.V != pre.V || now.SentLen != pre.SentLen || now.CommitsLen != pre.CommitsLen || now.RoundsLen != pre.RoundsLen {
		m.fail("C14", "stale-sync-had-effect", "node %d at (h=%d,v=%d): UpdateState(block %d), below its height, changed (h,v)/sends/callbacks: now (h=%d,v=%d) sends %d->%d commits %d->%d rounds %d->%d",
			n.Idx, pre.H, pre.V, c.H, now.H, now.V, pre.SentLen, now.SentLen, pre.CommitsLen, now.CommitsLen, pre.RoundsLen, now.RoundsLen)
		return
	}
	if after != before {
		m.fail("C14", "stale-sync-had-effect:spi-state", "node %d at (h=%d,v=%d): UpdateState(block %d), below its height, changed what the node holds: election registration/storage before %+v after %+v", n.Idx, pre.H, pre.V, c.H, before, after)
	}
}

func (m *Monitors) AtEnd() {}

// ---------------------------------------------------------------- C10: equivocation and phase order, over the send stream

func (m *Monitors) leaderID(h, v uint64) primitives.MemberId {
	return ref.Leader(primitives.View(v), m.w.Committee(primitives.BlockHeight(h)))
}

func addTo(t map[hvx]map[string]bool, k hvx, s string) {
	if t[k] == nil {
		t[k] = map[string]bool{}
	}
	t[k][s] = true
}

// beforeDeliver records, in the receiving node's table of "valid delivered messages", what msg contributes
// (reference-validated: signature and membership), before the node itself processes it.
func (m *Monitors) beforeDeliver(n *Node, msg *Msg) {
	w := m.w
	nm := m.per[n.Idx]
	meta := msg.Meta
	if !meta.OK || meta.Inst != uint64(Instance) {
		return
	}
	com := w.Committee(primitives.BlockHeight(meta.H))
	r := protocol.LeanhelixContentReader(msg.Raw.Content)
	sigOK := func(ref_ *protocol.BlockRef, s *protocol.SenderSignature) bool {
		return ref_ != nil && s != nil && w.Reg.VerifyMsg(ref_.BlockHeight(), ref_.Raw(), s.MemberId(), s.Signature())
	}
	notePP := func(pp *protocol.PreprepareContent) {
		if pp == nil || len(pp.Raw()) == 0 {
			return
		}
		if b := fakes.AsBlock(msg.Raw.Block); b == nil || fakes.ValidProposal(primitives.BlockHeight(meta.H), b, pp.SignedHeader().BlockHash(), m.prevBlockOf(n, meta.H)) != nil {
			m.Facts["invalid-proposal-delivered"]++
		}
		hd := pp.SignedHeader()
		if sigOK(hd, pp.Sender()) && pp.Sender().MemberId().Equal(ref.Leader(hd.View(), com)) && uint64(hd.BlockHeight()) == meta.H {
			k := hvx{uint64(hd.BlockHeight()), uint64(hd.View()), string(hd.BlockHash())}
			if !nm.gotPP[k] {
				for o := range nm.gotPP {
					if o.H == k.H && o.V == k.V && o.X != k.X {
						nm.sawTwoProposals = true
						m.Facts["two-proposals"]++
					}
				}
			}
			nm.gotPP[k] = true
		}
	}
	switch {
	case r.IsMessagePreprepareMessage():
		notePP(r.PreprepareMessage())
	case r.IsMessageNewViewMessage():
		notePP(r.NewViewMessage().Message())
	case r.IsMessagePrepareMessage():
		p := r.PrepareMessage()
		hd := p.SignedHeader()
		id := p.Sender().MemberId()
		if sigOK(hd, p.Sender()) && ref.IsMember(com, id) && !id.Equal(ref.Leader(hd.View(), com)) {
			addTo(nm.gotP, hvx{uint64(hd.BlockHeight()), uint64(hd.View()), string(hd.BlockHash())}, string(id))
		}
	case r.IsMessageCommitMessage():
		c := r.CommitMessage()
		hd := c.SignedHeader()
		id := c.Sender().MemberId()
		if sigOK(hd, c.Sender()) && ref.IsMember(com, id) {
			addTo(nm.gotC, hvx{uint64(hd.BlockHeight()), uint64(hd.View()), string(hd.BlockHash())}, string(id))
		}
	}
}

func idsOfSet(s map[string]bool, extra ...primitives.MemberId) []primitives.MemberId {
	var out []primitives.MemberId
	for k := range s {
		out = append(out, primitives.MemberId(k))
	}
	return append(out, extra...)
}

func (m *Monitors) onSend(n *Node, sm *SentMsg) {
	if m.w.CloneMode && m.on("C11") {
		m.cloneCheck(n, sm)
	}
	if m.on("C20") {
		m.wireCheck(n, sm)
	}
	nm := m.per[n.Idx]
	meta := sm.Meta
	if !meta.OK {
		m.fail("C10", "unparseable-message-sent", "node %d sent a message that does not parse", n.Idx)
		return
	}
	key := hv{meta.H, meta.V}
	kx := hvx{meta.H, meta.V, meta.Hash}
	com := m.w.Committee(primitives.BlockHeight(meta.H))
	leader := ref.Leader(primitives.View(meta.V), com)
	lower := sm.AtH == meta.H && sm.AtV > meta.V
	switch meta.Union {
	case UPP, UNV:
		if b := fakes.AsBlock(sm.Raw.Block); b != nil {
			for _, pc := range n.BU.Proposals {
				if pc.CancelledDuring && pc.BlockID == b.ID {
					m.fail("C15", "cancelled-proposal-broadcast", "node %d broadcast block %s, which its RequestNewBlockProposal returned after the call's context had been cancelled (an election / sync told the node to leave that position while the call was in progress)", n.Idx, b.ID)
				}
			}
		}
		if old, ok := nm.proposals[key]; ok && old != meta.Hash {
			m.fail("C10", "two-proposals-signed", "node %d signed two different proposals for (h=%d,v=%d)", n.Idx, meta.H, meta.V)
		}
		nm.proposals[key] = meta.Hash
		if !n.ID.Equal(leader) {
			m.fail("C10", "proposal-by-non-leader", "node %d proposed for (h=%d,v=%d) but is not that view's leader", n.Idx, meta.H, meta.V)
		}
		if lower {
			m.fail("C10", "proposal-for-lower-view", "node %d in view %d sent a proposal for view %d", n.Idx, sm.AtV, meta.V)
		}
		nm.gotPP[kx] = true
		m.checkLeaderOutput(n, sm)
	case UP:
		if old, ok := nm.prepares[key]; ok && old != meta.Hash {
			m.fail("C10", "two-prepares-signed", "node %d signed PREPARE for two different hashes in (h=%d,v=%d)", n.Idx, meta.H, meta.V)
		}
		nm.prepares[key] = meta.Hash
		if n.ID.Equal(leader) {
			m.fail("C10", "prepare-by-leader", "node %d sent PREPARE in (h=%d,v=%d) which it leads", n.Idx, meta.H, meta.V)
		}
		if !nm.gotPP[kx] {
			m.fail("C10", "prepare-without-proposal", "node %d sent PREPARE(h=%d,v=%d) without having been delivered that proposal from the view's leader", n.Idx, meta.H, meta.V)
		}
		if lower {
			m.fail("C10", "prepare-for-lower-view", "node %d in view %d sent PREPARE for view %d", n.Idx, sm.AtV, meta.V)
		}
		addTo(nm.gotP, kx, string(n.ID))
	case UC:
		if old, ok := nm.commits[key]; ok && old != meta.Hash {
			m.fail("C10", "two-commits-signed", "node %d signed COMMIT for two different hashes in (h=%d,v=%d)", n.Idx, meta.H, meta.V)
		}
		nm.commits[key] = meta.Hash
		cert := nm.gotPP[kx] && ref.IsQuorum(idsOfSet(nm.gotP[kx], leader), com)
		cq := ref.IsQuorum(idsOfSet(nm.gotC[kx]), com)
		if !cert && !cq {
			m.fail("C10", "commit-without-certificate", "node %d sent COMMIT(h=%d,v=%d) holding neither a prepared certificate nor a commit quorum for that (view, hash)", n.Idx, meta.H, meta.V)
		}
		if cq && !cert {
			nm.commitQBeforePrepared = true
			m.Facts["commit-quorum-before-prepared"]++
		}
		// was this COMMIT sent because the node became prepared? judged on what the node itself has stored at this moment
		if pp, ok := n.Sto.GetPreprepareMessage(primitives.BlockHeight(meta.H), primitives.View(meta.V)); ok && string(pp.Content().SignedHeader().BlockHash()) == meta.Hash && pp.Block() != nil {
			ids := n.Sto.GetPrepareSendersIds(primitives.BlockHeight(meta.H), primitives.View(meta.V), primitives.BlockHash(meta.Hash))
			ids = append(ids, pp.SenderMemberId())
			if ref.IsQuorum(ids, com) {
				nm.preparedIn[key] = meta.Hash
			}
		}
		addTo(nm.gotC, kx, string(n.ID))
	case UVC:
		if last, ok := nm.lastVC[meta.H]; ok && int64(meta.V) <= last {
			m.fail("C10", "view-change-view-not-increasing", "node %d sent VIEW_CHANGE for view %d after one for view %d at height %d", n.Idx, meta.V, last, meta.H)
		}
		nm.lastVC[meta.H] = int64(meta.V)
		m.checkVoterOutput(n, sm)
	}
}

func (m *Monitors) onDelivered(n *Node, msg *Msg, pre Pre) {
	m.stepInvariants(n, pre)
	m.checkAcceptance(n, msg, pre)
}

func (m *Monitors) prevBlockOf(n *Node, h uint64) interfaces.Block {
	if b := m.per[n.Idx].blockFor[h]; b != nil {
		return b
	}
	return nil
}

func pviewOf(proof []byte) uint64 {
	if len(proof) == 0 {
		return 0
	}
	return uint64(protocol.BlockProofReader(proof).BlockRef().View())
}

// storedMessageOK: the checks that hold for every PREPREPARE/PREPARE/COMMIT/VIEW_CHANGE a correct node stores, whatever path it took.
func (m *Monitors) storedMessageOK(e fakes.StoreEvent) string {
	w := m.w
	com := w.Committee(e.H)
	var hd interface {
		Raw() []byte
	}
	var inst primitives.InstanceId
	var tag, want protocol.MessageType
	var snd *protocol.SenderSignature
	switch x := e.Msg.(type) {
	case *interfaces.PreprepareMessage:
		h := x.Content().SignedHeader()
		hd, inst, tag, want, snd = h, h.InstanceId(), h.MessageType(), protocol.LEAN_HELIX_PREPREPARE, x.Content().Sender()
	case *interfaces.PrepareMessage:
		h := x.Content().SignedHeader()
		hd, inst, tag, want, snd = h, h.InstanceId(), h.MessageType(), protocol.LEAN_HELIX_PREPARE, x.Content().Sender()
	case *interfaces.CommitMessage:
		h := x.Content().SignedHeader()
		hd, inst, tag, want, snd = h, h.InstanceId(), h.MessageType(), protocol.LEAN_HELIX_COMMIT, x.Content().Sender()
	case *interfaces.ViewChangeMessage:
		h := x.Content().SignedHeader()
		hd, inst, tag, want, snd = h, h.InstanceId(), h.MessageType(), protocol.LEAN_HELIX_VIEW_CHANGE, x.Content().Sender()
	default:
		return ""
	}
	if inst != Instance {
		return "instance"
	}
	if e.Kind != "PP" && tag != want { // the proposal embedded in a NEW_VIEW is stored as PP; its tag is not demanded (DESIGN section 10)
		return "type-tag"
	}
	if !ref.IsMember(com, snd.MemberId()) {
		return "sender-not-member"
	}
	if !w.Reg.VerifyMsg(e.H, hd.Raw(), snd.MemberId(), snd.Signature()) {
		return "signature"
	}
	return ""
}

// ---------------------------------------------------------------- C20 (engine S part): what a correct node puts on the wire

// wireCheck: the raw message parses back to a message of the same kind and header fields, and every signature nested in it
// verifies over the re-read bytes.
func (m *Monitors) wireCheck(n *Node, sm *SentMsg) {
	w := m.w
	meta := sm.Meta
	if !meta.OK {
		m.fail("C20", "emitted-message-does-not-parse", "node %d sent content that does not parse back", n.Idx)
		return
	}
	copyRaw := &interfaces.ConsensusRawMessage{Content: append([]byte{}, sm.Raw.Content...), Block: sm.Raw.Block}
	if m2 := MetaOf(copyRaw); m2 != meta {
		m.fail("C20", "parse-not-deterministic", "node %d: parsing a copy of the emitted bytes gives different header fields", n.Idx)
		return
	}
	h := primitives.BlockHeight(meta.H)
	sig := func(content []byte, s *protocol.SenderSignature) bool {
		return s != nil && w.Reg.VerifyMsg(h, content, s.MemberId(), s.Signature())
	}
	proofOK := func(where string, p *protocol.PreparedProof) {
		if p == nil || len(p.Raw()) == 0 {
			return
		}
		m.Facts["c20-nested-signatures-checked"]++
		if !sig(p.PreprepareBlockRef().Raw(), p.PreprepareSender()) {
			m.fail("C20", "nested-signature-does-not-verify:proof-preprepare", "node %d sent a %s(h=%d,v=%d) whose %s carries a PREPREPARE signature that does not verify over the re-read reference", n.Idx, kindName(meta.Union), meta.H, meta.V, where)
		}
		it := p.PrepareSendersIterator()
		for it.HasNext() {
			s := it.NextPrepareSenders()
			if !sig(p.PrepareBlockRef().Raw(), s) {
				m.fail("C20", "nested-signature-does-not-verify:proof-prepare", "node %d sent a %s(h=%d,v=%d) whose %s lists a PREPARE signature of %q that does not verify over the re-read PREPARE reference (a signature the node had verified when it stored that PREPARE)", n.Idx, kindName(meta.Union), meta.H, meta.V, where, s.MemberId())
			}
		}
	}
	r := protocol.LeanhelixContentReader(copyRaw.Content)
	switch meta.Union {
	case UPP:
		if !sig(r.PreprepareMessage().SignedHeader().Raw(), r.PreprepareMessage().Sender()) {
			m.fail("C20", "own-signature-does-not-verify", "node %d: PREPREPARE signature does not verify over the re-read header", n.Idx)
		}
	case UP:
		if !sig(r.PrepareMessage().SignedHeader().Raw(), r.PrepareMessage().Sender()) {
			m.fail("C20", "own-signature-does-not-verify", "node %d: PREPARE signature does not verify over the re-read header", n.Idx)
		}
	case UC:
		if !sig(r.CommitMessage().SignedHeader().Raw(), r.CommitMessage().Sender()) {
			m.fail("C20", "own-signature-does-not-verify", "node %d: COMMIT signature does not verify over the re-read header", n.Idx)
		}
	case UVC:
		vc := r.ViewChangeMessage()
		if !sig(vc.SignedHeader().Raw(), vc.Sender()) {
			m.fail("C20", "own-signature-does-not-verify", "node %d: VIEW_CHANGE signature does not verify over the re-read header", n.Idx)
		}
		proofOK("prepared proof", vc.SignedHeader().PreparedProof())
	case UNV:
		nv := r.NewViewMessage()
		if !sig(nv.SignedHeader().Raw(), nv.Sender()) {
			m.fail("C20", "own-signature-does-not-verify", "node %d: NEW_VIEW signature does not verify over the re-read header", n.Idx)
		}
		if pp := nv.Message(); pp != nil && len(pp.Raw()) > 0 && !sig(pp.SignedHeader().Raw(), pp.Sender()) {
			m.fail("C20", "own-signature-does-not-verify", "node %d: the PREPREPARE embedded in its NEW_VIEW does not verify over the re-read header", n.Idx)
		}
		// built from VIEW_CHANGE messages: the nested votes are exactly the votes the node stored for that view - same number, same
		// senders, same bytes (none lost, none doubled on the way into the NEW_VIEW)
		stored := map[string][]byte{}
		for _, e := range n.Sto.Log {
			if e.Kind == "VC" && e.Stored && uint64(e.H) == meta.H && uint64(e.V) == meta.V {
				stored[e.Sender] = e.Msg.(*interfaces.ViewChangeMessage).Content().Raw()
			}
		}
		embedded := map[string]int{}
		it := nv.SignedHeader().ViewChangeConfirmationsIterator()
		for it.HasNext() {
			vote := it.NextViewChangeConfirmations()
			id := string(vote.Sender().MemberId())
			embedded[id]++
			if embedded[id] > 1 {
				m.fail("C20", "nested-votes-differ-from-source:duplicate", "node %d sent a NEW_VIEW(h=%d,v=%d) that carries the vote of %q %d times", n.Idx, meta.H, meta.V, id, embedded[id])
			}
			if src, ok := stored[id]; ok && !bytes.Equal(src, vote.Raw()) {
				m.fail("C20", "nested-votes-differ-from-source:bytes", "node %d sent a NEW_VIEW(h=%d,v=%d) in which the vote of %q is not the bytes of the VIEW_CHANGE it was built from", n.Idx, meta.H, meta.V, id)
			}
			m.Facts["c20-nested-signatures-checked"]++
			if !sig(vote.SignedHeader().Raw(), vote.Sender()) {
				m.fail("C20", "nested-signature-does-not-verify:vote", "node %d sent a NEW_VIEW(h=%d,v=%d) embedding a vote of %q whose signature does not verify over the re-read vote header", n.Idx, meta.H, meta.V, vote.Sender().MemberId())
			}
			proofOK("embedded vote's prepared proof", vote.SignedHeader().PreparedProof())
		}
		for id := range stored {
			if embedded[id] == 0 {
				m.fail("C20", "nested-votes-differ-from-source:missing", "node %d sent a NEW_VIEW(h=%d,v=%d) that does not carry the vote of %q it was built from", n.Idx, meta.H, meta.V, id)
			}
		}
	}
}
