package sim

// C09 / C07(ii) / C11 monitors (filled in below as the engines grow).

func (m *Monitors) checkLeaderOutput(n *Node, sm *SentMsg)     {}
func (m *Monitors) checkVoterOutput(n *Node, sm *SentMsg)      {}
func (m *Monitors) checkAcceptance(n *Node, msg *Msg, pre Pre) {}
