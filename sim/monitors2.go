package sim

import (
	"bytes"
	"fmt"

	"github.com/orbs-network/lean-helix-go/services/interfaces"
	"github.com/orbs-network/lean-helix-go/spec/types/go/primitives"
	"github.com/orbs-network/lean-helix-go/spec/types/go/protocol"

	"verif/fakes"
	"verif/ref"
)

// ---------------------------------------------------------------- effects of one delivery

// Effect is what one delivered message did to a node, restricted to the height the node was at before the delivery
// (what happens at later heights during the same call belongs to cached messages drained there, not to this message).
type Effect struct {
	Stored     []fakes.StoreEvent // Store* calls that returned true
	StoreCalls []fakes.StoreEvent // every Store* call (true or false)
	Sends      []*SentMsg
	ViewMoved  bool
	Committed  bool
}

func (e Effect) Any() bool {
	return len(e.Stored) > 0 || len(e.Sends) > 0 || e.ViewMoved || e.Committed
}

func (m *Monitors) effects(n *Node, pre Pre) Effect {
	var e Effect
	for _, s := range n.Sto.Log[pre.StoreLen:] {
		if uint64(s.H) == pre.H {
			e.StoreCalls = append(e.StoreCalls, s)
			if s.Stored {
				e.Stored = append(e.Stored, s)
			}
		}
	}
	for _, s := range n.Sent[pre.SentLen:] {
		if s.AtH == pre.H {
			e.Sends = append(e.Sends, s)
		}
	}
	if n.H() == pre.H && n.V() != pre.V {
		e.ViewMoved = true
	}
	for _, c := range n.Commits[pre.CommitsLen:] {
		if c.H == pre.H {
			e.Committed = true
		}
	}
	return e
}

func (m *Monitors) consumerOKAt(n *Node, h uint64) func(b interfaces.Block, hash primitives.BlockHash) bool {
	return func(b interfaces.Block, hash primitives.BlockHash) bool {
		if fakes.ValidProposal(primitives.BlockHeight(h), b, hash, m.prevBlockOf(n, h)) != nil {
			return false
		}
		if n.BU.Reject != nil && n.BU.Reject(fakes.AsBlock(b)) {
			return false
		}
		return true
	}
}

// mayInfluence is the C08 reference predicate for a PREPREPARE / PREPARE / COMMIT / VIEW_CHANGE delivered to node n in state (h,v).
func (m *Monitors) mayInfluence(n *Node, raw *interfaces.ConsensusRawMessage, h, v uint64) ref.Verdict {
	w := m.w
	no := func(s string) ref.Verdict { return ref.Verdict{Why: s} }
	r := protocol.LeanhelixContentReader(raw.Content)
	com := w.Committee(primitives.BlockHeight(h))
	base := func(hd *protocol.BlockRef, s *protocol.SenderSignature, wantType protocol.MessageType) ref.Verdict {
		if hd == nil || s == nil || len(hd.Raw()) == 0 {
			return no("malformed")
		}
		if hd.InstanceId() != Instance {
			return no("instance")
		}
		if uint64(hd.BlockHeight()) != h {
			return no("height")
		}
		if hd.MessageType() != wantType {
			return no("type-tag")
		}
		if !ref.IsMember(com, s.MemberId()) {
			return no("sender-not-member")
		}
		if !w.Reg.VerifyMsg(hd.BlockHeight(), hd.Raw(), s.MemberId(), s.Signature()) {
			return no("signature")
		}
		return ref.Verdict{OK: true}
	}
	switch {
	case r.IsMessagePreprepareMessage():
		pp := r.PreprepareMessage()
		if vd := base(pp.SignedHeader(), pp.Sender(), protocol.LEAN_HELIX_PREPREPARE); !vd.OK {
			return vd
		}
		if !pp.Sender().MemberId().Equal(ref.Leader(pp.SignedHeader().View(), com)) {
			return no("pp-not-from-leader")
		}
		return ref.Verdict{OK: true}
	case r.IsMessagePrepareMessage():
		p := r.PrepareMessage()
		if vd := base(p.SignedHeader(), p.Sender(), protocol.LEAN_HELIX_PREPARE); !vd.OK {
			return vd
		}
		if p.Sender().MemberId().Equal(ref.Leader(p.SignedHeader().View(), com)) {
			return no("prepare-from-leader")
		}
		if uint64(p.SignedHeader().View()) < v {
			return no("stale-view")
		}
		return ref.Verdict{OK: true}
	case r.IsMessageCommitMessage():
		c := r.CommitMessage()
		if vd := base(c.SignedHeader(), c.Sender(), protocol.LEAN_HELIX_COMMIT); !vd.OK {
			return vd
		}
		if !w.Reg.VerifyShare(primitives.BlockHeight(h), ref.SeedBytes(m.seedOfNode(n, h)), c.Sender().MemberId(), c.Share()) {
			return no("bad-share")
		}
		return ref.Verdict{OK: true}
	case r.IsMessageViewChangeMessage():
		vc := r.ViewChangeMessage()
		hd := vc.SignedHeader()
		if hd.InstanceId() != Instance {
			return no("instance")
		}
		if uint64(hd.BlockHeight()) != h {
			return no("height")
		}
		if !n.ID.Equal(ref.Leader(hd.View(), com)) {
			return no("vc-not-addressed-to-leader")
		}
		if uint64(hd.View()) < v {
			return no("stale-view")
		}
		vd, info := w.Env.ValidVote(vc, primitives.BlockHeight(h), hd.View(), com)
		if !vd.OK {
			return vd
		}
		if info != nil && raw.Block != nil && !commitmentOK(raw.Block, info.Hash) {
			return no("vc-block-does-not-match-proof")
		}
		return ref.Verdict{OK: true}
	}
	return no("not-a-pp-p-c-vc")
}

// seedOfNode: the random seed node n's term of height h was started with.
func (m *Monitors) seedOfNode(n *Node, h uint64) uint64 {
	return ref.SeedOf(protocol.BlockProofReader(m.per[n.Idx].proofFor[h]).RandomSeedSignature())
}

// judgeDelivery implements the C07 / C08 oracles for one delivery (used by engine N, and as a monitor on every delivery in engine S).
func (m *Monitors) judgeDelivery(n *Node, msg *Msg, pre Pre) {
	if !m.on("C07") && !m.on("C08") {
		return
	}
	w := m.w
	meta := msg.Meta
	eff := m.effects(n, pre)
	if !eff.Any() {
		return
	}
	if !meta.OK {
		m.fail("C08", "effect-of-unparseable-message", "node %d: an unparseable message had an effect", n.Idx)
		return
	}
	if meta.H != pre.H {
		if meta.H < pre.H {
			m.fail("C08", "effect-of-other-height:past", "node %d at height %d: a message for height %d had an effect", n.Idx, pre.H, meta.H)
		}
		// a future-height message is cached; effects seen now at pre.H cannot come from it... unless the filter is broken
		if meta.H > pre.H {
			m.fail("C08", "effect-of-other-height:future", "node %d at height %d: a message for height %d had an immediate effect", n.Idx, pre.H, meta.H)
		}
		return
	}
	com := w.Committee(primitives.BlockHeight(pre.H))
	if meta.Union == UNV {
		nv := interfaces.ToConsensusMessage(msg.Raw).(*interfaces.NewViewMessage)
		vd, info := w.Env.ValidNewView(nv, primitives.BlockHeight(pre.H), com, commitmentOK, m.consumerOKAt(n, pre.H))
		if vd.OK && meta.V < pre.V {
			vd = ref.Verdict{Why: "stale-view"}
		}
		if vd.OK && info != nil && !info.Locked {
			// no authentic vote carries a valid proof: the proposal is a fresh block, which the node adopts only after ITS consumer
			// validated it - the call must have been made during this delivery, for this hash, with a positive verdict
			adopted := false
			for _, s := range eff.Stored {
				if s.Kind == "PP" && uint64(s.V) == meta.V && s.Hash == meta.Hash {
					adopted = true
				}
			}
			validated := false
			for _, vc := range n.BU.Validates[pre.ValLen:] {
				if uint64(vc.H) == pre.H && vc.Hash == meta.Hash && vc.OK {
					validated = true
				}
			}
			if adopted && !validated {
				m.fail("C07", "fresh-proposal-adopted-without-consumer-validation", "node %d in (h=%d,v=%d) adopted the proposal of NEW_VIEW(v=%d), in which no authentic vote carries a valid prepared proof, without asking its ValidateBlockProposal", n.Idx, pre.H, pre.V, meta.V)
			}
		}
		if !vd.OK {
			m.fail("C07", "invalid-new-view-had-effect:"+vd.Why, "node %d in (h=%d,v=%d): NEW_VIEW(v=%d) that fails the reference certificate check (%s) had an effect (stored=%d sends=%d viewMoved=%v)", n.Idx, pre.H, pre.V, meta.V, vd.Why, len(eff.Stored), len(eff.Sends), eff.ViewMoved)
		}
		m.Facts["nv-accepted"]++
		return
	}
	// C07 (i): adopting a proposal / preparing / moving into a view > 0 because of a message that is not a NEW_VIEW
	for _, s := range eff.Sends {
		if s.Meta.Union == UP && s.Meta.V > 0 && meta.Union == UPP {
			m.fail("C07", "standalone-preprepare-adopted", "node %d in (h=%d,v=%d) sent PREPARE for view %d after a stand-alone PREPREPARE, without a NEW_VIEW certificate", n.Idx, pre.H, pre.V, s.Meta.V)
		}
	}
	for _, s := range eff.Stored {
		if s.Kind == "PP" && uint64(s.V) > 0 && s.Sender != string(n.ID) {
			m.fail("C07", "standalone-preprepare-adopted", "node %d in (h=%d,v=%d) stored a proposal for view %d delivered as a stand-alone %s", n.Idx, pre.H, pre.V, s.V, kindName(meta.Union))
		}
	}
	if eff.ViewMoved {
		// only a VIEW_CHANGE completing this node's own election may move its view (judged at NEW_VIEW emission, C07 (ii))
		nowV := n.V()
		leads := n.ID.Equal(ref.Leader(primitives.View(nowV), com))
		if !(meta.Union == UVC && leads) {
			m.fail("C07", "view-moved-by-non-certificate", "node %d moved from view %d to %d on a %s", n.Idx, pre.V, nowV, kindName(meta.Union))
		}
	}
	// C08
	if vd := m.mayInfluence(n, msg.Raw, pre.H, pre.V); !vd.OK {
		// a stand-alone PREPREPARE for a view > 0 that is otherwise authentic is C07's business (reported above)
		m.fail("C08", "unauthorised-influence:"+kindName(meta.Union)+":"+vd.Why, "node %d in (h=%d,v=%d): %s(h=%d,v=%d) claimed from %q that fails the reference predicate (%s) had an effect (stored=%d sends=%d viewMoved=%v committed=%v)",
			n.Idx, pre.H, pre.V, kindName(meta.Union), meta.H, meta.V, meta.Sender, vd.Why, len(eff.Stored), len(eff.Sends), eff.ViewMoved, eff.Committed)
	}
	m.Facts["msg-accepted:"+kindName(meta.Union)]++
}

func kindName(u int) string {
	switch u {
	case UPP:
		return "PREPREPARE"
	case UP:
		return "PREPARE"
	case UC:
		return "COMMIT"
	case UVC:
		return "VIEW_CHANGE"
	case UNV:
		return "NEW_VIEW"
	}
	return "UNKNOWN"
}

// ---------------------------------------------------------------- C09 / C07(ii): what a correct node emits on view change

// highestPreparedView: the highest view of height h in which node n sent a COMMIT right after becoming prepared
// (a COMMIT sent on a commit quorum ends the height, so it cannot precede a VIEW_CHANGE of the same height).
func (m *Monitors) highestPrepared(n *Node, h uint64, before int) (uint64, string, bool) {
	var bv uint64
	var bx string
	found := false
	nm := m.per[n.Idx]
	for _, s := range n.Sent {
		if s.Seq >= before {
			break
		}
		if s.Meta.Union != UC || s.Meta.H != h {
			continue
		}
		// only a COMMIT sent while the node's own storage held a prepared certificate for that view counts
		// (a COMMIT sent on a commit quorum alone does not make the node prepared; with a failing commit callback the height goes on)
		if x, ok := nm.preparedIn[hv{h, s.Meta.V}]; ok && x == s.Meta.Hash && (!found || s.Meta.V >= bv) {
			bv, bx, found = s.Meta.V, s.Meta.Hash, true
		}
	}
	return bv, bx, found
}

func (m *Monitors) checkVoterOutput(n *Node, sm *SentMsg) {
	if !m.on("C09") && !m.on("C11") {
		return
	}
	w := m.w
	h := sm.Meta.H
	com := w.Committee(primitives.BlockHeight(h))
	vc := protocol.LeanhelixContentReader(sm.Raw.Content).ViewChangeMessage()
	proof := vc.SignedHeader().PreparedProof()
	has := proof != nil && len(proof.Raw()) > 0
	pv, px, prepared := m.highestPrepared(n, h, sm.Seq)
	if !prepared {
		if has {
			// a proof without having been prepared is not forbidden by C09, but it must at least be valid (C11)
			if vd, _ := w.Env.ValidPreparedProof(proof, primitives.BlockHeight(h), primitives.View(sm.Meta.V), com); !vd.OK {
				m.fail("C11", "emitted-vote-with-invalid-proof:"+vd.Why, "node %d sent a VIEW_CHANGE(v=%d) with an invalid prepared proof (%s)", n.Idx, sm.Meta.V, vd.Why)
			}
		}
		return
	}
	m.Facts["vc-while-prepared"]++
	if !has {
		m.fail("C09", "vote-without-proof-while-prepared", "node %d, prepared in view %d, sent VIEW_CHANGE(v=%d) without a prepared proof", n.Idx, pv, sm.Meta.V)
		return
	}
	vd, info := w.Env.ValidPreparedProof(proof, primitives.BlockHeight(h), primitives.View(sm.Meta.V), com)
	if !vd.OK {
		m.fail("C09", "vote-proof-invalid:"+vd.Why, "node %d, prepared in view %d, sent VIEW_CHANGE(v=%d) whose prepared proof is invalid (%s)", n.Idx, pv, sm.Meta.V, vd.Why)
		return
	}
	if uint64(info.View) != pv || string(info.Hash) != px {
		m.fail("C09", "vote-proof-not-highest-prepared", "node %d is prepared in view %d but its VIEW_CHANGE(v=%d) carries the proof of view %d", n.Idx, pv, sm.Meta.V, info.View)
	}
	if sm.Raw.Block == nil || !commitmentOK(sm.Raw.Block, info.Hash) {
		m.fail("C09", "vote-block-missing-or-mismatch", "node %d: VIEW_CHANGE(v=%d) with a proof for view %d does not carry the matching block", n.Idx, sm.Meta.V, info.View)
	}
}

func (m *Monitors) checkLeaderOutput(n *Node, sm *SentMsg) {
	if sm.Meta.Union != UNV {
		if sm.Meta.V > 0 && sm.Meta.Union == UPP {
			m.fail("C07", "leader-standalone-proposal-in-view>0", "node %d sent a stand-alone PREPREPARE for view %d", n.Idx, sm.Meta.V)
		}
		return
	}
	if !m.on("C09") && !m.on("C07") && !m.on("C11") {
		return
	}
	w := m.w
	h, v := sm.Meta.H, sm.Meta.V
	com := w.Committee(primitives.BlockHeight(h))
	nv := protocol.LeanhelixContentReader(sm.Raw.Content).NewViewMessage()
	// votes the node stored for (h,v) (Storage recorder), including its own
	stored := map[string]*interfaces.ViewChangeMessage{}
	for _, e := range n.Sto.Log {
		if e.Kind == "VC" && e.Stored && uint64(e.H) == h && uint64(e.V) == v {
			stored[e.Sender] = e.Msg.(*interfaces.ViewChangeMessage)
		}
	}
	embedded := map[string]*protocol.ViewChangeMessageContent{}
	var ids []primitives.MemberId
	var best *ref.ProofInfo
	var bestBlock interfaces.Block
	anyProof := false
	it := nv.SignedHeader().ViewChangeConfirmationsIterator()
	for it.HasNext() {
		vote := it.NextViewChangeConfirmations()
		id := string(vote.Sender().MemberId())
		if embedded[id] != nil {
			m.fail("C09", "new-view-duplicate-vote", "node %d: NEW_VIEW(v=%d) embeds two votes of one member", n.Idx, v)
		}
		embedded[id] = vote
		st, okStored := stored[id]
		if !okStored {
			m.fail("C09", "new-view-vote-not-counted", "node %d: NEW_VIEW(v=%d) embeds a vote of %q that the node never stored for that view", n.Idx, v, id)
			continue
		}
		// C07 (ii) / C09: every embedded vote is a reference-valid vote, re-encoded so that its signature still verifies
		vd, info := w.Env.ValidVote(vote, primitives.BlockHeight(h), primitives.View(v), com)
		if !vd.OK {
			m.fail("C07", "leader-counted-invalid-vote:"+vd.Why, "node %d: NEW_VIEW(v=%d) embeds a vote of %q that fails the reference vote check (%s)", n.Idx, v, id, vd.Why)
			continue
		}
		if !bytes.Equal(vote.SignedHeader().Raw(), st.Content().SignedHeader().Raw()) && !w.Reg.VerifyMsg(primitives.BlockHeight(h), vote.SignedHeader().Raw(), vote.Sender().MemberId(), vote.Sender().Signature()) {
			m.fail("C09", "new-view-vote-reencoding-broke-signature", "node %d: NEW_VIEW(v=%d): re-encoded vote of %q no longer verifies", n.Idx, v, id)
		}
		ids = append(ids, vote.Sender().MemberId())
		if hasProofVC(vote) {
			anyProof = true
		}
		if info != nil && (best == nil || info.View > best.View) {
			best = info
			bestBlock = st.Block()
		}
	}
	for id := range stored {
		if embedded[id] == nil {
			m.fail("C09", "new-view-drops-counted-vote", "node %d: NEW_VIEW(v=%d) does not embed the stored vote of %q", n.Idx, v, id)
		}
	}
	if !ref.IsQuorum(ids, com) {
		m.fail("C07", "leader-proposed-without-quorum-of-valid-votes", "node %d emitted NEW_VIEW(v=%d) with valid votes below quorum weight", n.Idx, v)
	}
	pp := nv.Message()
	hash := pp.SignedHeader().BlockHash()
	// fresh proposal requested iff no embedded vote carries a proof
	fresh := false
	if cur, ok := m.cur[n.Idx]; ok {
		for _, pc := range n.BU.Proposals[cur.PropLen:] { // RequestNewBlockProposal calls made during the event that emitted this NEW_VIEW
			if b, ok := n.BU.Proposed[pc.BlockID]; ok && b.Hash().Equal(hash) && uint64(pc.H) == h {
				fresh = true
			}
		}
	}
	if len(embedded) >= 2 {
		m.Facts["nv-emitted"]++
	}
	if anyProof {
		m.Facts["nv-emitted-with-proof"]++
		if best == nil {
			return // invalid proofs were reported above
		}
		if !hash.Equal(best.Hash) {
			m.fail("C09", "new-view-not-highest-proven-block", "node %d: NEW_VIEW(v=%d) proposes a block other than the one certified by the highest-view proof (view %d) among its votes", n.Idx, v, best.View)
		}
		if sm.Raw.Block == nil || !commitmentOK(sm.Raw.Block, best.Hash) {
			m.fail("C09", "new-view-block-missing-or-mismatch", "node %d: NEW_VIEW(v=%d) does not carry the block certified by the highest-view proof (vote block present=%v)", n.Idx, v, bestBlock != nil)
		}
		if fresh {
			m.fail("C09", "fresh-proposal-despite-proof", "node %d requested a fresh proposal for NEW_VIEW(v=%d) although a vote carries a proof", n.Idx, v)
		}
	} else if !fresh {
		m.fail("C09", "new-view-block-not-fresh-without-proof", "node %d: NEW_VIEW(v=%d) without any proof proposes a block that RequestNewBlockProposal did not return", n.Idx, v)
	}
}

func hasProofVC(vc *protocol.ViewChangeMessageContent) bool {
	p := vc.SignedHeader().PreparedProof()
	return p != nil && len(p.Raw()) > 0
}

// ---------------------------------------------------------------- C11: honest output is accepted by honest peers in a matching state

func (m *Monitors) checkAcceptance(n *Node, msg *Msg, pre Pre) {
	m.judgeDelivery(n, msg, pre)
	if !m.on("C11") {
		return
	}
	w := m.w
	if msg.From < 0 || !w.IsCorrect(msg.From) || msg.Origin != "node" {
		return
	}
	meta := msg.Meta
	if meta.H != pre.H {
		return
	}
	if n.Leaving {
		// the main loop has told this peer to leave some positions (their contexts are cancelled) and the worker half is still to come,
		// or came during this very delivery: for a message about one of THOSE positions the peer is not "in a matching state" any more.
		// A message about a later position (e.g. the NEW_VIEW of the next view) is unaffected and judged as usual.
		if n.LeaveSync && meta.H <= n.LeaveH {
			return
		}
		if !n.LeaveSync && meta.Union != UC && (meta.H < n.LeaveH || (meta.H == n.LeaveH && meta.V <= n.LeaveV)) {
			return
		}
	}
	// guard: after an agreement violation peers may be on different chains; C11 does not apply then
	sender := w.Nodes[msg.From]
	if fakes.BlockID(m.prevBlockOf(sender, meta.H)) != fakes.BlockID(m.prevBlockOf(n, meta.H)) {
		return
	}
	eff := m.effects(n, pre)
	storeCall := func(kind string) bool {
		for _, s := range eff.StoreCalls {
			if s.Kind == kind && s.Sender == meta.Sender && uint64(s.V) == meta.V && (kind == "VC" || s.Hash == meta.Hash) {
				return true
			}
		}
		return false
	}
	foreign := w.Obs.ByzStored > 0
	note := func() {
		if foreign {
			m.Facts["c11-judged-after-foreign-input"]++
		}
		m.Facts["c11-judged"]++
	}
	switch meta.Union {
	case UNV:
		if pre.V > meta.V {
			return
		}
		for _, e := range n.Sto.Log[:pre.StoreLen] {
			if e.Kind == "PP" && e.Stored && uint64(e.H) == meta.H && uint64(e.V) == meta.V {
				return // precondition "has not yet accepted a proposal for that view" was false before the delivery
			}
		}
		note()
		adopted := n.H() > pre.H || n.V() >= meta.V
		ppStored := false
		for _, s := range eff.Stored {
			if s.Kind == "PP" && uint64(s.V) == meta.V && s.Hash == meta.Hash {
				ppStored = true
			}
		}
		prepared := false
		for _, s := range eff.Sends {
			if s.Meta.Union == UP && s.Meta.V == meta.V && s.Meta.Hash == meta.Hash {
				prepared = true
			}
		}
		if !adopted || !ppStored || !prepared {
			m.fail("C11", "honest-new-view-rejected", "node %d in (h=%d,v=%d) did not adopt NEW_VIEW(v=%d) emitted by correct leader %d (view now %d, proposal stored=%v, PREPARE sent=%v)", n.Idx, pre.H, pre.V, meta.V, msg.From, n.V(), ppStored, prepared)
		}
	case UVC:
		com := w.Committee(primitives.BlockHeight(meta.H))
		if !n.ID.Equal(ref.Leader(primitives.View(meta.V), com)) || pre.V > meta.V {
			return
		}
		note()
		if !storeCall("VC") {
			m.fail("C11", "honest-view-change-rejected", "leader node %d in (h=%d,v=%d) did not count VIEW_CHANGE(v=%d) emitted by correct node %d", n.Idx, pre.H, pre.V, meta.V, msg.From)
		}
	case UP:
		if pre.V > meta.V {
			return
		}
		note()
		if !storeCall("P") {
			m.fail("C11", "honest-prepare-rejected", "node %d in (h=%d,v=%d) did not count PREPARE(v=%d) emitted by correct node %d", n.Idx, pre.H, pre.V, meta.V, msg.From)
		}
	case UC:
		note()
		if !storeCall("C") {
			m.fail("C11", "honest-commit-rejected", "node %d in (h=%d,v=%d) did not count COMMIT(v=%d) emitted by correct node %d", n.Idx, pre.H, pre.V, meta.V, msg.From)
		}
	}
}

var _ = fmt.Sprint

// cloneCheck (C11, thorough): at emission time every correct peer is cloned by replay and the message is delivered to each clone
// whose state satisfies the statement's precondition; acceptance is judged there, whether or not the schedule ever delivers it.
func (m *Monitors) cloneCheck(sender *Node, sm *SentMsg) {
	w := m.w
	meta := sm.Meta
	if !meta.OK || m.w.Viol != nil {
		return
	}
	// NEW_VIEW and VIEW_CHANGE always, PREPARE / COMMIT sampled (they are frequent and cheap to get wrong only in bulk)
	if (meta.Union == UP || meta.Union == UC) && sm.Seq%6 != 0 {
		return
	}
	if meta.Union == UPP {
		return
	}
	for _, to := range sm.To {
		if !w.IsCorrect(to) || to == sender.Idx || w.Nodes[to].Crashed {
			continue
		}
		peer := w.Nodes[to]
		if peer.H() != meta.H {
			continue
		}
		if fakes.BlockID(m.prevBlockOf(sender, meta.H)) != fakes.BlockID(m.prevBlockOf(peer, meta.H)) {
			continue
		}
		clone, ok := w.CloneByReplay(to)
		if !ok || clone.H() != peer.H() || clone.V() != peer.V() {
			m.Facts["c11-clone-diverged"]++
			continue
		}
		pre := m.pre0(clone)
		func() {
			defer func() { _ = recover() }()
			clone.VN.Gc()
			clone.VN.MainMessage(sm.Raw)
			clone.VN.WorkerMessage(sm.Raw)
		}()
		eff := m.effects(clone, pre)
		m.Facts["c11-clone-judged"]++
		if why := m.acceptanceFailure(clone, meta, pre, eff); why != "" {
			m.fail("C11", "emitted-message-rejected-by-peer-clone:"+kindName(meta.Union), "%s(h=%d,v=%d) emitted by correct node %d is not accepted by (a replayed copy of) correct node %d in state (h=%d,v=%d): %s",
				kindName(meta.Union), meta.H, meta.V, sender.Idx, to, pre.H, pre.V, why)
			return
		}
	}
}

// acceptanceFailure returns "" if the statement's precondition does not apply or the accepting effect happened.
func (m *Monitors) acceptanceFailure(n *Node, meta Meta, pre Pre, eff Effect) string {
	storeCall := func(kind string) bool {
		for _, s := range eff.StoreCalls {
			if s.Kind == kind && s.Sender == meta.Sender && uint64(s.V) == meta.V && (kind == "VC" || s.Hash == meta.Hash) {
				return true
			}
		}
		return false
	}
	switch meta.Union {
	case UNV:
		if pre.V > meta.V {
			return ""
		}
		for _, e := range n.Sto.Log[:pre.StoreLen] {
			if e.Kind == "PP" && e.Stored && uint64(e.H) == meta.H && uint64(e.V) == meta.V {
				return ""
			}
		}
		ppStored, prepared := false, false
		for _, s := range eff.Stored {
			if s.Kind == "PP" && uint64(s.V) == meta.V && s.Hash == meta.Hash {
				ppStored = true
			}
		}
		for _, s := range eff.Sends {
			if s.Meta.Union == UP && s.Meta.V == meta.V && s.Meta.Hash == meta.Hash {
				prepared = true
			}
		}
		if !(n.H() > pre.H || n.V() >= meta.V) || !ppStored || !prepared {
			return fmt.Sprintf("view now %d, proposal stored=%v, PREPARE sent=%v", n.V(), ppStored, prepared)
		}
	case UVC:
		com := m.w.Committee(primitives.BlockHeight(meta.H))
		if !n.ID.Equal(ref.Leader(primitives.View(meta.V), com)) || pre.V > meta.V {
			return ""
		}
		if !storeCall("VC") {
			return "the addressed leader did not count the vote"
		}
	case UP:
		if pre.V > meta.V {
			return ""
		}
		if !storeCall("P") {
			return "PREPARE not counted"
		}
	case UC:
		if !storeCall("C") {
			return "COMMIT not counted"
		}
	}
	return ""
}
