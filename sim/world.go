package sim

import (
	"context"
	"fmt"
	"sort"

	leanhelix "github.com/orbs-network/lean-helix-go"
	"github.com/orbs-network/lean-helix-go/services/interfaces"
	"github.com/orbs-network/lean-helix-go/spec/types/go/primitives"

	"github.com/orbs-network/scribe/log"

	"verif/ev"
	"verif/fakes"
	"verif/ref"
)

const Instance = primitives.InstanceId(7001)

// Config of one simulated world. JSON-able: it is part of every replay file.
type Config struct {
	N           int        `json:"n"`
	Weights     []uint64   `json:"weights"`                 // by identity index 0..N-1
	Order       []int      `json:"order"`                   // committee order at height 1 (a permutation of 0..N-1)
	Rot         int        `json:"rot"`                     // the order is rotated by Rot positions per height
	WRot        int        `json:"wrot,omitempty"`          // the weight vector is rotated by WRot positions per height (weights differ between heights)
	Byz         []int      `json:"byz"`                     // identity indices whose keys the adversary holds
	Crashed     []int      `json:"crashed"`                 // correct but silent members
	Outsiders   int        `json:"outsiders"`               // identities with keys that are in no committee
	MaxHeight   uint64     `json:"max_height"`              // nodes stop being scheduled once past this height
	Focus       string     `json:"focus"`                   // property whose monitors are armed
	FailCommit  []int      `json:"fail_commit,omitempty"`   // nodes whose commit callback returns an error ...
	FailCommitH uint64     `json:"fail_commit_h,omitempty"` // ... at this height (the consumer failed to persist the block)
	AcceptAllAt []int      `json:"accept_all_at,omitempty"` // nodes whose consumer validator approves everything, even a missing block (C12)
	RejectAt    []int      `json:"reject_at,omitempty"`     // nodes whose validator additionally rejects blocks with an id ending in "!r"
	Absent      []int      `json:"absent,omitempty"`        // identities that are NOT in the committee ...
	AbsentH     uint64     `json:"absent_h,omitempty"`      // ... of this height (membership changes between heights; a correct absent node only moves on by sync)
	Interrupt   *Interrupt `json:"interrupt,omitempty"`     // a main-loop step that lands while the worker of one node is inside a consumer call
	SendFail    []int      `json:"send_fail,omitempty"`     // nodes whose transport fails ...
	SendFailU   int        `json:"send_fail_u,omitempty"`   // ... on sends of this envelope kind + 1 (0 = any kind) ...
	SendFailNth int        `json:"send_fail_nth,omitempty"` // ... at the n-th such send (1-based; 0 = every one): half of the recipients get the message, the library gets an error
}

// Interrupt: while node Node is inside its Nth call of the consumer function Kind (validate | propose), the MAIN loop handles an
// event - the node's armed election trigger fires, or a sync arrives - cancelling contexts as the real main loop does; the worker
// part of that event runs right after the interrupted worker step returns. This is the interleaving "election / sync while the
// worker sits in an SPI call" inside the deterministic engine. With GiveUp the consumer abandons a validation whose context was
// cancelled under it and returns nil.
type Interrupt struct {
	Node   int    `json:"node"`
	Kind   string `json:"kind"`
	Nth    int    `json:"nth"`
	Event  string `json:"event"` // trigger | sync
	GiveUp bool   `json:"give_up,omitempty"`
	Delay  int    `json:"delay,omitempty"` // the worker handles this many further messages before it picks up the interrupting event (its select chooses among ready channels)
}

type Commit struct {
	H     uint64
	View  uint64
	Block *fakes.Block
	Proof []byte
}

type Round struct {
	H          uint64
	PrevID     string
	PrevProof  []byte
	CanBeFirst bool
	ViewAtCB   uint64
}

type SentMsg struct {
	Seq            int // global send sequence
	From           int
	To             []int // recipient identity indices
	Raw            *interfaces.ConsensusRawMessage
	Meta           Meta
	AtH            uint64 // sender's (height, view) when sending
	AtV            uint64
	DuringDelivery int // id of the pool message being delivered when this was sent (-1 if none)
}

type InEvent struct {
	Kind  string // "msg","timeout","sync"
	Raw   *interfaces.ConsensusRawMessage
	Block *fakes.Block
	Proof []byte
}

type Node struct {
	Idx     int
	ID      primitives.MemberId
	VN      *leanhelix.VerifNode
	BU      *fakes.BlockUtils
	Mem     *fakes.Membership
	Sto     *fakes.RecStorage
	Sch     *fakes.Sched
	KM      *fakes.KeyManager
	Commits []Commit
	Rounds  []Round
	Sent    []*SentMsg
	Inbox   []InEvent
	Crashed bool
	Panics  []string
	// prev block/proof handed to the term of each height (from the new-round callback)
	PrevOf map[uint64]Round
	// interrupt bookkeeping: calls seen per kind, and the worker half of an interrupting event that is still to run
	spiCalls    map[string]int
	pendingTrig *interfaces.ElectionTrigger
	pendingSync *Commit
	// Interrupted: the main loop handled an event (cancelling contexts) during the worker step that is being judged right now
	Interrupted  bool
	pendingDelay int
	// what the main loop has told the node to leave (its contexts are cancelled) while the worker half is still to come:
	// positions up to and including (LeaveH, LeaveV) for an election, every position of heights <= LeaveH for a sync
	Leaving        bool
	LeaveSync      bool
	LeaveH, LeaveV uint64
}

func (n *Node) H() uint64 { return uint64(n.VN.State().Height()) }
func (n *Node) V() uint64 { return uint64(n.VN.State().View()) }

// Msg is one in-flight message (one recipient).
type Msg struct {
	ID     int
	From   int // identity index of the real sender; -1 = adversary
	To     int
	Raw    *interfaces.ConsensusRawMessage
	Meta   Meta
	Origin string // "node", "byz:<strategy>"
}

type HoldRule struct {
	Types uint8  `json:"types"` // bit u set = envelope tag u is held
	To    uint16 `json:"to"`
	From  uint16 `json:"from"` // bit 15 = adversary
}

func (r HoldRule) matches(m *Msg) bool {
	if m.Meta.Union < 0 || r.Types>>uint(m.Meta.Union)&1 == 0 {
		return false
	}
	if r.To>>uint(m.To)&1 == 0 {
		return false
	}
	f := uint(15)
	if m.From >= 0 {
		f = uint(m.From)
	}
	return r.From>>f&1 == 1
}

// DebugLogger, when set before NewWorld, receives the library's log lines of every node (debugging aid; nil in all checks).
var DebugLogger func(node int, line string)

type dbgLog struct{ i int }

func (d dbgLog) Debug(f string, a ...interface{}) { DebugLogger(d.i, fmt.Sprintf(f, a...)) }
func (d dbgLog) Info(f string, a ...interface{})  { DebugLogger(d.i, fmt.Sprintf(f, a...)) }
func (d dbgLog) Error(f string, a ...interface{}) { DebugLogger(d.i, fmt.Sprintf(f, a...)) }
func (d dbgLog) ConsensusTrace(f string, fields ...*log.Field) {
	DebugLogger(d.i, "TRACE "+f)
}

type World struct {
	CloneMode  bool // C11 thorough: judge every emitted message at once against replayed copies of every correct peer
	Cfg        Config
	Reg        *fakes.Registry
	Env        *ref.Env
	IDs        []primitives.MemberId // N members then outsiders
	Nodes      []*Node               // nil for Byzantine identities
	Pool       []*Msg
	nextID     int
	Seen       []*SentMsg // everything correct nodes sent, in order (the adversary's and the monitors' view of honest traffic)
	AdvSent    []*Msg     // everything the adversary injected
	Holds      []HoldRule
	Trace      []Action
	Viol       *ev.Violation
	Adv        *Adversary
	Mon        *Monitors
	delivering int
	sendSeq    int
	Steps      int
	// observations for evidence
	Obs Obs
}

type Obs struct {
	Commits      int
	MaxView      uint64
	ByzStored    int // Store* of a message whose claimed sender is Byzantine/outsider returned true at a correct node
	Delivered    int
	Timeouts     int
	Strategies   map[string]int
	HeightsDone  uint64
	Panicked     bool
	SendFailures int
	Interrupts   int
	SplitEvents  int // timeouts / syncs whose worker half ran later than their main-loop half
}

func isIn(xs []int, x int) bool {
	for _, y := range xs {
		if y == x {
			return true
		}
	}
	return false
}

// Identities are 20 bytes long, like node addresses, and share their first bytes (anything that identifies a member by a
// shortened or printable form of its id confuses them).
func MemberName(i int) primitives.MemberId {
	return primitives.MemberId(fmt.Sprintf("member-address-%02d-aa", i))
}
func OutsiderName(i int) primitives.MemberId {
	return primitives.MemberId(fmt.Sprintf("member-address-x%d-zz", i))
}

// Members lists the identity indices of the committee of height h in leader order: the configured order rotated by Rot*(h-1),
// without the identities that are absent at that height.
func (c *Config) Members(h uint64) []int {
	n := c.N
	out := make([]int, 0, n)
	shift := 0
	if h > 0 {
		shift = int((h - 1) * uint64(c.Rot) % uint64(n))
	}
	for i := 0; i < n; i++ {
		idx := c.Order[(i+shift)%n]
		if h != 0 && h == c.AbsentH && isIn(c.Absent, idx) {
			continue
		}
		out = append(out, idx)
	}
	return out
}

// Committee of a height (see Config.Members).
func (w *World) Committee(h primitives.BlockHeight) []interfaces.CommitteeMember {
	ms := w.Cfg.Members(uint64(h))
	out := make([]interfaces.CommitteeMember, len(ms))
	for i, idx := range ms {
		out[i] = interfaces.CommitteeMember{Id: w.IDs[idx], Weight: primitives.MemberWeight(w.Cfg.WeightAt(idx, uint64(h)))}
	}
	return out
}

// InCommittee: identity idx is a member of the committee of height h.
func (w *World) InCommittee(idx int, h uint64) bool { return isIn(w.Cfg.Members(h), idx) }

func (w *World) IdxOf(id primitives.MemberId) int {
	for i, x := range w.IDs {
		if x.Equal(id) {
			return i
		}
	}
	return -1
}

func (w *World) IsByz(i int) bool      { return isIn(w.Cfg.Byz, i) }
func (w *World) IsOutsider(i int) bool { return i >= w.Cfg.N }
func (w *World) IsCorrect(i int) bool  { return i >= 0 && i < w.Cfg.N && !w.IsByz(i) }

// LeaderIdx returns the identity index of the leader of (h, v).
func (w *World) LeaderIdx(h, v uint64) int {
	return w.IdxOf(ref.Leader(primitives.View(v), w.Committee(primitives.BlockHeight(h))))
}

// WeightAt: weight of identity idx in the committee of height h.
func (c *Config) WeightAt(idx int, h uint64) uint64 {
	if c.WRot == 0 || h == 0 {
		return c.Weights[idx]
	}
	n := len(c.Weights)
	return c.Weights[(idx+int((h-1)*uint64(c.WRot)%uint64(n)))%n]
}

// ByzWeightOK checks the generator invariant of the properties' precondition: Byzantine weight <= f, at every height that can be reached.
func (c *Config) ByzWeightOK() bool {
	for h := uint64(1); h <= c.MaxHeight+1; h++ {
		var com []interfaces.CommitteeMember
		var ids []primitives.MemberId
		for _, i := range c.Members(h) {
			com = append(com, interfaces.CommitteeMember{Id: MemberName(i), Weight: primitives.MemberWeight(c.WeightAt(i, h))})
			if isIn(c.Byz, i) {
				ids = append(ids, MemberName(i))
			}
		}
		if len(com) < 4 || ref.Weight(ids, com).Cmp(ref.F(com)) > 0 {
			return false
		}
	}
	return true
}

func NewWorld(cfg Config) *World {
	w := &World{Cfg: cfg, Reg: fakes.NewRegistry(), delivering: -1}
	w.Obs.Strategies = map[string]int{}
	w.Env = &ref.Env{Reg: w.Reg, Instance: Instance}
	for i := 0; i < cfg.N; i++ {
		w.IDs = append(w.IDs, MemberName(i))
	}
	for i := 0; i < cfg.Outsiders; i++ {
		w.IDs = append(w.IDs, OutsiderName(i))
	}
	for _, id := range w.IDs {
		w.Reg.Add(id)
	}
	w.Nodes = make([]*Node, cfg.N)
	for i := 0; i < cfg.N; i++ {
		if w.IsByz(i) {
			continue
		}
		w.Nodes[i] = w.newNode(i)
		w.Nodes[i].Crashed = isIn(cfg.Crashed, i)
	}
	w.Adv = newAdversary(w)
	w.Mon = newMonitors(w)
	return w
}

func (w *World) newNode(i int) *Node {
	n := &Node{Idx: i, ID: w.IDs[i], PrevOf: map[uint64]Round{}}
	n.BU = fakes.NewBlockUtils(string(n.ID))
	if isIn(w.Cfg.RejectAt, i) {
		n.BU.Reject = func(b *fakes.Block) bool { return b != nil && len(b.ID) > 1 && b.ID[len(b.ID)-2:] == "!r" }
	}
	n.BU.AcceptAll = isIn(w.Cfg.AcceptAllAt, i)
	if it := w.Cfg.Interrupt; it != nil && it.Node == i {
		n.spiCalls = map[string]int{}
		n.BU.GiveUpOnCancel = it.GiveUp
		n.BU.Gate = func(kind string, ctx context.Context, h primitives.BlockHeight) { w.interrupt(n, kind) }
	}
	n.Mem = &fakes.Membership{Me: n.ID, Committee: w.Committee}
	n.Sto = fakes.NewRecStorage()
	n.Sch = fakes.NewSched()
	n.KM = &fakes.KeyManager{Reg: w.Reg, Me: n.ID}
	cfg := &interfaces.Config{
		InstanceId:              Instance,
		Communication:           w.transport(n),
		Membership:              n.Mem,
		BlockUtils:              n.BU,
		KeyManager:              n.KM,
		Storage:                 n.Sto,
		OverrideElectionTrigger: n.Sch,
	}
	if DebugLogger != nil {
		cfg.Logger = dbgLog{i}
	}
	n.VN = leanhelix.NewVerifNode(cfg,
		func(ctx context.Context, block interfaces.Block, proof []byte) error {
			return w.onCommit(n, ctx, block, proof)
		},
		func(ctx context.Context, h primitives.BlockHeight, prev interfaces.Block, canBeFirst bool) {
			w.onRound(n, uint64(h), prev, canBeFirst)
		})
	return n
}

// interrupt: the main-loop half of the configured event, run from inside the consumer call.
func (w *World) interrupt(n *Node, kind string) {
	it := w.Cfg.Interrupt
	n.spiCalls[kind]++
	if it == nil || kind != it.Kind || n.spiCalls[kind] != it.Nth || n.pendingTrig != nil || n.pendingSync != nil {
		return
	}
	switch it.Event {
	case "trigger":
		if trig := n.Sch.Trigger(); trig != nil {
			n.VN.Gc()
			if n.VN.MainElection(trig) {
				n.pendingTrig = trig
				n.pendingDelay = it.Delay
				n.Leaving, n.LeaveSync, n.LeaveH, n.LeaveV = true, false, uint64(trig.Hv.Height()), uint64(trig.Hv.View())
				n.Interrupted = true
				w.Obs.Interrupts++
			}
		}
	case "sync":
		// the newest block some other correct node has committed at or above this node's height (a sync service hands over its tip)
		h := n.H()
		var best *Commit
		for _, src := range w.CorrectLive() {
			if src == n.Idx {
				continue
			}
			for k := range w.Nodes[src].Commits {
				if c := &w.Nodes[src].Commits[k]; c.H >= h && c.H <= w.Cfg.MaxHeight && (best == nil || c.H > best.H) {
					best = c
				}
			}
		}
		if best != nil {
			n.VN.Gc()
			if n.VN.MainUpdateState(best.Block, best.Proof) {
				n.pendingSync = best
				n.pendingDelay = it.Delay
				n.Leaving, n.LeaveSync, n.LeaveH = true, true, best.H
				n.Interrupted = true
				w.Obs.Interrupts++
			}
		}
	}
}

// runPending: the worker half of an interrupting event, as its own step with its own monitors.
func (w *World) runPending(n *Node) {
	if (n.pendingTrig != nil || n.pendingSync != nil) && n.pendingDelay > 0 {
		n.pendingDelay--
		return
	}
	n.Leaving = false
	if trig := n.pendingTrig; trig != nil {
		n.pendingTrig = nil
		n.Inbox = append(n.Inbox, InEvent{Kind: "timeout"})
		pre := w.Mon.pre(n)
		w.guard(n, func() { n.VN.WorkerElection(trig) })
		w.Mon.onTimeout(n, pre)
	}
	if c := n.pendingSync; c != nil {
		n.pendingSync = nil
		n.Inbox = append(n.Inbox, InEvent{Kind: "sync", Block: c.Block, Proof: c.Proof})
		pre := w.Mon.pre(n)
		w.guard(n, func() {
			if c.H >= n.H() {
				w.Mon.beforeSync(n, c)
			}
			n.VN.WorkerUpdateState(c.Block, c.Proof)
		})
		w.Mon.onSync(n, c, pre)
	}
}

// transport: the node's Communication SPI. For nodes listed in SendFail the configured send fails half way: only the first half
// of the recipients get the message and the library is told the send failed.
func (w *World) transport(n *Node) *fakes.Communication {
	c := &fakes.Communication{Send: func(rec []primitives.MemberId, raw *interfaces.ConsensusRawMessage) { w.onSend(n, rec, raw) }}
	if isIn(w.Cfg.SendFail, n.Idx) {
		count := 0
		c.Fail = func(rec []primitives.MemberId, raw *interfaces.ConsensusRawMessage) ([]primitives.MemberId, error) {
			if w.Cfg.SendFailU != 0 && MetaOf(raw).Union != w.Cfg.SendFailU-1 {
				return rec, nil
			}
			count++
			if w.Cfg.SendFailNth != 0 && count != w.Cfg.SendFailNth {
				return rec, nil
			}
			w.Obs.SendFailures++
			return rec[:len(rec)/2], fmt.Errorf("transport of node %d failed after %d of %d recipients", n.Idx, len(rec)/2, len(rec))
		}
	}
	return c
}

// Start brings every live correct node to height 1 the way a consumer does: UpdateState(genesis).
func (w *World) Start() {
	for _, n := range w.Nodes {
		if n == nil || n.Crashed {
			continue
		}
		n.Inbox = append(n.Inbox, InEvent{Kind: "sync"})
		w.guard(n, func() {
			n.VN.Gc()
			if n.VN.MainUpdateState(nil, nil) {
				n.VN.WorkerUpdateState(nil, nil)
			}
		})
	}
}

// CloneByReplay builds a fresh, detached copy of correct node j by feeding a new node that node's entire input history.
// The clone's sends and callbacks are only recorded on the clone; nothing reaches the world or its monitors.
func (w *World) CloneByReplay(j int) (clone *Node, ok bool) {
	orig := w.Nodes[j]
	if orig == nil {
		return nil, false
	}
	n := &Node{Idx: j, ID: w.IDs[j], PrevOf: map[uint64]Round{}}
	n.BU = fakes.NewBlockUtils(string(n.ID))
	n.BU.AcceptAll = orig.BU.AcceptAll
	n.BU.Reject = orig.BU.Reject
	n.Mem = &fakes.Membership{Me: n.ID, Committee: w.Committee}
	n.Sto = fakes.NewRecStorage()
	n.Sch = fakes.NewSched()
	n.KM = &fakes.KeyManager{Reg: w.Reg, Me: n.ID}
	cfg := &interfaces.Config{
		InstanceId: Instance,
		Communication: &fakes.Communication{Send: func(rec []primitives.MemberId, raw *interfaces.ConsensusRawMessage) {
			n.Sent = append(n.Sent, &SentMsg{From: j, Raw: raw, Meta: MetaOf(raw), AtH: n.H(), AtV: n.V()})
		}},
		Membership: n.Mem, BlockUtils: n.BU, KeyManager: n.KM, Storage: n.Sto, OverrideElectionTrigger: n.Sch,
	}
	failH := uint64(0)
	if isIn(w.Cfg.FailCommit, j) {
		failH = w.Cfg.FailCommitH
	}
	n.VN = leanhelix.NewVerifNode(cfg,
		func(ctx context.Context, block interfaces.Block, proof []byte) error {
			n.Commits = append(n.Commits, Commit{H: uint64(block.Height()), Block: fakes.AsBlock(block), Proof: proof})
			if failH != 0 && uint64(block.Height()) == failH {
				return fmt.Errorf("consumer failed")
			}
			return nil
		},
		func(ctx context.Context, h primitives.BlockHeight, prev interfaces.Block, canBeFirst bool) {})
	ok = true
	func() {
		defer func() {
			if recover() != nil {
				ok = false
			}
		}()
		for _, e := range orig.Inbox {
			n.VN.Gc()
			switch e.Kind {
			case "msg":
				n.VN.MainMessage(e.Raw)
				n.VN.WorkerMessage(e.Raw)
			case "timeout":
				if trig := n.Sch.Trigger(); trig != nil && n.VN.MainElection(trig) {
					n.VN.WorkerElection(trig)
				}
			case "sync":
				var b interfaces.Block
				if e.Block != nil {
					b = e.Block
				}
				if n.VN.MainUpdateState(b, e.Proof) {
					n.VN.WorkerUpdateState(b, e.Proof)
				}
			}
		}
	}()
	return n, ok
}

func (w *World) guard(n *Node, f func()) {
	defer func() {
		if r := recover(); r != nil {
			n.Panics = append(n.Panics, fmt.Sprint(r))
			w.Obs.Panicked = true
			w.Mon.onPanic(n, fmt.Sprint(r))
		}
	}()
	f()
}

func (w *World) onSend(n *Node, recipients []primitives.MemberId, raw *interfaces.ConsensusRawMessage) {
	meta := MetaOf(raw)
	sm := &SentMsg{Seq: w.sendSeq, From: n.Idx, Raw: raw, Meta: meta, AtH: n.H(), AtV: n.V(), DuringDelivery: w.delivering}
	w.sendSeq++
	for _, r := range recipients {
		sm.To = append(sm.To, w.IdxOf(r))
	}
	n.Sent = append(n.Sent, sm)
	w.Seen = append(w.Seen, sm)
	w.Mon.onSend(n, sm)
	if meta.H > w.Cfg.MaxHeight {
		return
	}
	for _, to := range sm.To {
		if !w.IsCorrect(to) || w.Nodes[to].Crashed {
			continue
		}
		w.push(&Msg{From: n.Idx, To: to, Raw: raw, Meta: meta, Origin: "node"})
	}
}

func (w *World) push(m *Msg) *Msg {
	m.ID = w.nextID
	w.nextID++
	w.Pool = append(w.Pool, m)
	return m
}

func (w *World) onCommit(n *Node, ctx context.Context, block interfaces.Block, proof []byte) error {
	b := fakes.AsBlock(block)
	c := Commit{H: uint64(block.Height()), View: n.V(), Block: b, Proof: append([]byte{}, proof...)}
	n.Commits = append(n.Commits, c)
	w.Obs.Commits++
	if c.H > w.Obs.HeightsDone {
		w.Obs.HeightsDone = c.H
	}
	w.Mon.onCommit(n, c, ctx)
	if it := w.Cfg.Interrupt; it != nil && it.Node == n.Idx && n.spiCalls != nil {
		w.interrupt(n, "commit") // the main loop handles an election / a sync while the worker sits in the commit callback
	}
	if c.H == w.Cfg.FailCommitH && isIn(w.Cfg.FailCommit, n.Idx) {
		return fmt.Errorf("consumer of node %d failed to persist block %d", n.Idx, c.H)
	}
	return nil
}

func (w *World) onRound(n *Node, h uint64, prev interfaces.Block, canBeFirst bool) {
	r := Round{H: h, PrevID: fakes.BlockID(prev), CanBeFirst: canBeFirst, ViewAtCB: n.V()}
	n.Rounds = append(n.Rounds, r)
	w.Mon.onRound(n, r)
}

func (w *World) held(m *Msg) bool {
	for _, r := range w.Holds {
		if r.matches(m) {
			return true
		}
	}
	return false
}

func (w *World) find(id int) (int, *Msg) {
	for i, m := range w.Pool {
		if m.ID == id {
			return i, m
		}
	}
	return -1, nil
}

func (w *World) remove(i int) {
	w.Pool = append(w.Pool[:i], w.Pool[i+1:]...)
}

// Deliverable returns the ids of pool messages that are not held and whose recipient is still inside the height bound.
func (w *World) Deliverable() []int {
	var out []int
	for _, m := range w.Pool {
		if !w.held(m) {
			out = append(out, m.ID)
		}
	}
	return out
}

func (w *World) deliver(m *Msg) {
	n := w.Nodes[m.To]
	if n == nil || n.Crashed {
		return
	}
	if n.H() > w.Cfg.MaxHeight {
		return
	}
	n.Inbox = append(n.Inbox, InEvent{Kind: "msg", Raw: m.Raw})
	w.Obs.Delivered++
	pre := w.Mon.pre(n)
	w.Mon.beforeDeliver(n, m)
	n.Interrupted = false
	w.delivering = m.ID
	w.guard(n, func() {
		n.VN.Gc()
		n.VN.MainMessage(m.Raw)
		n.VN.WorkerMessage(m.Raw)
	})
	w.delivering = -1
	if v := n.V(); v > w.Obs.MaxView {
		w.Obs.MaxView = v
	}
	w.Mon.onDelivered(n, m, pre)
	w.runPending(n)
}

// timeoutD / syncD: the main-loop half of the event happens now, the worker half after d further deliveries to the node (the
// worker's select picked queued messages first). d = 0, or a half already pending: the ordinary undivided step.
func (w *World) timeoutD(i, d int) {
	if d <= 0 || !w.IsCorrect(i) {
		w.timeout(i)
		return
	}
	n := w.Nodes[i]
	if n.Crashed || n.H() > w.Cfg.MaxHeight || n.H() == 0 || n.pendingTrig != nil || n.pendingSync != nil {
		w.timeout(i)
		return
	}
	trig := n.Sch.Trigger()
	if trig == nil {
		return
	}
	w.Obs.Timeouts++
	w.guard(n, func() {
		n.VN.Gc()
		if n.VN.MainElection(trig) {
			n.pendingTrig, n.pendingDelay = trig, d
			n.Leaving, n.LeaveSync, n.LeaveH, n.LeaveV = true, false, uint64(trig.Hv.Height()), uint64(trig.Hv.View())
			w.Obs.SplitEvents++
		}
	})
}

func (w *World) syncD(i, src int, h uint64, d int) {
	if d <= 0 || !w.IsCorrect(i) || !w.IsCorrect(src) {
		w.sync(i, src, h)
		return
	}
	n := w.Nodes[i]
	if n.Crashed || n.pendingTrig != nil || n.pendingSync != nil {
		w.sync(i, src, h)
		return
	}
	var c *Commit
	for k := range w.Nodes[src].Commits {
		if w.Nodes[src].Commits[k].H == h {
			c = &w.Nodes[src].Commits[k]
		}
	}
	if c == nil || h >= w.Cfg.MaxHeight+1 {
		return
	}
	w.guard(n, func() {
		n.VN.Gc()
		if n.VN.MainUpdateState(c.Block, c.Proof) {
			n.pendingSync, n.pendingDelay = c, d
			n.Leaving, n.LeaveSync, n.LeaveH = true, true, c.H
			w.Obs.SplitEvents++
		}
	})
}

func (w *World) timeout(i int) {
	if !w.IsCorrect(i) {
		return
	}
	n := w.Nodes[i]
	if n.Crashed || n.H() > w.Cfg.MaxHeight || n.H() == 0 {
		return
	}
	trig := n.Sch.Trigger()
	if trig == nil {
		return
	}
	n.Inbox = append(n.Inbox, InEvent{Kind: "timeout"})
	w.Obs.Timeouts++
	pre := w.Mon.pre(n)
	w.guard(n, func() {
		n.VN.Gc()
		if n.VN.MainElection(trig) {
			n.VN.WorkerElection(trig)
		}
	})
	if v := n.V(); v > w.Obs.MaxView {
		w.Obs.MaxView = v
	}
	w.Mon.onTimeout(n, pre)
	w.runPending(n)
}

// sync delivers UpdateState(block, proof) where (block, proof) was committed by correct node src at height h.
func (w *World) sync(i, src int, h uint64) {
	if !w.IsCorrect(i) || !w.IsCorrect(src) {
		return
	}
	n := w.Nodes[i]
	if n.Crashed {
		return
	}
	var c *Commit
	for k := range w.Nodes[src].Commits {
		if w.Nodes[src].Commits[k].H == h {
			c = &w.Nodes[src].Commits[k]
		}
	}
	if c == nil || h >= w.Cfg.MaxHeight+1 {
		return
	}
	n.Inbox = append(n.Inbox, InEvent{Kind: "sync", Block: c.Block, Proof: c.Proof})
	pre := w.Mon.pre(n)
	spi := w.Mon.spiSnap(n)
	w.guard(n, func() {
		n.VN.Gc()
		if n.VN.MainUpdateState(c.Block, c.Proof) {
			if c.H >= n.H() { // the worker will accept it: the term of c.H+1 starts from this block and proof
				w.Mon.beforeSync(n, c)
			}
			n.VN.WorkerUpdateState(c.Block, c.Proof)
		}
	})
	w.Mon.onSync(n, c, pre)
	if c.H < pre.H {
		w.Mon.staleSyncChangedNothing(n, c, pre, spi)
	}
}

// CorrectLive lists the indices of correct, non-crashed nodes.
func (w *World) CorrectLive() []int {
	var out []int
	for i, n := range w.Nodes {
		if n != nil && !n.Crashed {
			out = append(out, i)
		}
	}
	return out
}

// AllDone: every live correct node is past MaxHeight.
func (w *World) AllDone() bool {
	for _, i := range w.CorrectLive() {
		if w.Nodes[i].H() <= w.Cfg.MaxHeight {
			return false
		}
	}
	return true
}

func sortedKeys(m map[string]int) []string {
	var ks []string
	for k := range m {
		ks = append(ks, k)
	}
	sort.Strings(ks)
	return ks
}
