package sim

import (
	"fmt"

	"github.com/orbs-network/lean-helix-go/spec/types/go/primitives"

	"verif/ev"
	"verif/ref"
)

// Quorum thresholds IN USE (C06, behavioural part). One real node (Me); the harness plays every other member and feeds
// genuinely signed PREPAREs / COMMITs / VIEW_CHANGEs of a generated multiset of senders one at a time. After every delivery
// the reference (big-integer quorum arithmetic over the set of distinct committee members counted so far) says whether the
// node holds a quorum; the node's observable reaction (COMMIT sent = prepared, commit callback = committed, NEW_VIEW sent =
// elected) must agree in both directions. A node that acts below Q breaks quorum intersection, a node that does not act at Q
// breaks attainability - whichever code computes the test for it.

type QCase struct {
	Cfg      Config `json:"cfg"`
	Me       int    `json:"me"`
	Scenario string `json:"scenario"`       // prepare | commit | elect
	Senders  []int  `json:"senders"`        // identity indices in delivery order; repeats allowed; >= N are outsiders
	Timeouts int    `json:"timeouts"`       // elect: Me's own timeouts before the votes arrive (0 = votes for a future view)
	Jump     int    `json:"jump,omitempty"` // elect: the votes are for the Jump-th later view that Me leads (0 = the next one): a member far behind still takes its turn
}

type QRun struct {
	W            *World
	Steps        int // deliveries judged
	AtThreshold  int // deliveries after which the counted weight was within one member of Q
	Acted        bool
	MaxTotalBits int
}

func RunQCase(c QCase) *QRun {
	nc := NCase{Cfg: c.Cfg, Me: c.Me}
	w := NewNWorld(nc)
	r := &NRun{W: w, Me: w.Nodes[c.Me]}
	q := &QRun{W: w}
	a := w.Adv
	me := r.Me
	h := r.h()
	com := w.Committee(primitives.BlockHeight(h))
	q.MaxTotalBits = ref.Q(com).BitLen()
	fail := func(kind, format string, args ...interface{}) {
		if w.Viol == nil {
			w.Viol = &ev.Violation{Property: "C06", Kind: kind, Detail: fmt.Sprintf(format, args...), Replayer: "Q"}
		}
	}
	counted := map[string]bool{}
	ids := func() []primitives.MemberId {
		var out []primitives.MemberId
		for k := range counted {
			out = append(out, primitives.MemberId(k))
		}
		return out
	}
	near := func() bool { // adding or removing one counted / uncounted member would flip the verdict
		cur := ref.IsQuorum(ids(), com)
		for _, m := range com {
			k := string(m.Id)
			was := counted[k]
			counted[k] = !was
			flip := ref.IsQuorum(ids(), com) != cur
			if was {
				counted[k] = true
			} else {
				delete(counted, k)
			}
			if flip {
				return true
			}
		}
		return false
	}
	sentKind := func(union int, view uint64) bool {
		for _, s := range me.Sent {
			if s.Meta.Union == union && s.Meta.H == h && s.Meta.V == view {
				return true
			}
		}
		return false
	}
	judge := func(what string, acted bool) bool {
		q.Steps++
		if near() {
			q.AtThreshold++
		}
		want := ref.IsQuorum(ids(), com)
		if acted && !want {
			fail("acted-below-quorum:"+what, "node %d %s although the distinct committee members it counted weigh %s of W=%s, below Q=%s (counted %d members)", me.Idx, what, ref.Weight(ids(), com), ref.Total(com), ref.Q(com), len(counted))
		}
		if !acted && want {
			fail("no-action-at-quorum:"+what, "node %d has counted distinct committee members weighing %s >= Q=%s of W=%s but has not %s", me.Idx, ref.Weight(ids(), com), ref.Q(com), ref.Total(com), what)
		}
		q.Acted = acted
		return acted || w.Viol != nil
	}
	isMember := func(i int) bool { return i >= 0 && i < len(w.IDs) && ref.IsMember(com, w.IDs[i]) }

	switch c.Scenario {
	case "prepare", "commit":
		leader := w.LeaderIdx(h, 0)
		if leader == me.Idx {
			return q // the scenario needs Me as a non-leader (the generator picks Me accordingly)
		}
		sp := r.validProposal(0, 0)
		if sp == nil || !r.deliverSpec("q-proposal", sp) {
			return q
		}
		hash := r.storedHash(0)
		if hash == nil {
			return q
		}
		if c.Scenario == "prepare" {
			counted[string(w.IDs[leader])] = true
			counted[string(me.ID)] = true // its own PREPARE
			if judge("sent COMMIT (prepared)", sentKind(UC, 0)) {
				return q
			}
			for _, s := range c.Senders {
				if s < 0 || s >= len(w.IDs) || s == me.Idx {
					continue
				}
				rf := a.ref(TP, h, 0, hash)
				r.deliverSpec("q-prepare", &MsgSpec{Union: UP, Ref: rf, Sender: a.signedRef(s, rf)})
				if isMember(s) && s != leader { // a PREPARE of the leader and of a non-member does not count
					counted[string(w.IDs[s])] = true
				}
				if judge("sent COMMIT (prepared)", sentKind(UC, 0)) {
					return q
				}
			}
			return q
		}
		// commit: Me's own COMMIT counts iff the proposal alone made it prepared (leader + Me reach Q)
		if ref.IsQuorum([]primitives.MemberId{w.IDs[leader], me.ID}, com) {
			counted[string(me.ID)] = true
		}
		if judge("committed", len(me.Commits) > 0) {
			return q
		}
		for _, s := range c.Senders {
			if s < 0 || s >= len(w.IDs) || s == me.Idx {
				continue
			}
			rf := a.ref(TC, h, 0, hash)
			r.deliverSpec("q-commit", &MsgSpec{Union: UC, Ref: rf, Sender: a.signedRef(s, rf), Share: a.share(s, h)})
			if isMember(s) {
				counted[string(w.IDs[s])] = true
			}
			if judge("committed", len(me.Commits) > 0) {
				return q
			}
		}
	case "elect":
		// the smallest view >= 1 that Me leads
		view := uint64(1)
		for k := 0; k < len(com) && w.LeaderIdx(h, view) != me.Idx; k++ {
			view++
		}
		if w.LeaderIdx(h, view) != me.Idx {
			return q
		}
		view += uint64(c.Jump) * uint64(len(com))
		tmo := c.Timeouts
		if uint64(tmo) > view {
			tmo = int(view)
		}
		for i := 0; i < tmo; i++ {
			w.Apply(Action{K: "timeout", Node: me.Idx})
		}
		ownVote := func() bool {
			for _, e := range me.Sto.Log {
				if e.Kind == "VC" && e.Stored && uint64(e.H) == h && uint64(e.V) == view && e.Sender == string(me.ID) {
					return true
				}
			}
			return false
		}
		if ownVote() {
			counted[string(me.ID)] = true
		}
		if judge("sent NEW_VIEW (elected)", sentKind(UNV, view)) {
			return q
		}
		for _, s := range c.Senders {
			if s < 0 || s >= len(w.IDs) || s == me.Idx {
				continue
			}
			vs := a.vote(s, h, view, nil)
			r.deliverSpec("q-vote", &MsgSpec{Union: UVC, Vote: &vs})
			if isMember(s) {
				counted[string(w.IDs[s])] = true
			}
			if judge("sent NEW_VIEW (elected)", sentKind(UNV, view)) {
				return q
			}
		}
	}
	return q
}
