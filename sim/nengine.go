package sim

import (
	"fmt"

	"github.com/orbs-network/lean-helix-go/services/interfaces"
	"github.com/orbs-network/lean-helix-go/spec/types/go/primitives"
	"github.com/orbs-network/lean-helix-go/spec/types/go/protocol"

	"verif/ev"
	"verif/fakes"
	"verif/ref"
)

// Engine N: one real node (index Me); the harness plays every other member and therefore holds every other key.
// A case is a list of steps; candidate messages are built VALID first by reference builders and then mutated.

type Mutation struct {
	K      string `json:"k"`
	A      int    `json:"a,omitempty"`
	Resign bool   `json:"resign,omitempty"` // after the field change, re-make the signature with the claimed sender's key
}

type NStep struct {
	Next bool       `json:"next,omitempty"` // cand: the candidate is built for the NEXT height (view 0 there) and delivered now, i.e. into the future cache
	K    string     `json:"k"`              // timeout | propose | prepares | commits | cand | round (the others play a complete valid round: the node commits its height)
	View uint64     `json:"view,omitempty"`
	Kind string     `json:"kind,omitempty"` // cand: PP | P | C | VC | NV
	From int        `json:"from,omitempty"` // cand: which member plays the sender (index into the others), where a choice exists
	A    int        `json:"a,omitempty"`    // cand: builder parameter (proof view choice, number of votes with proofs ...)
	B    int        `json:"b,omitempty"`
	Muts []Mutation `json:"muts,omitempty"`
}

type NCase struct {
	Cfg   Config  `json:"cfg"`
	Me    int     `json:"me"`
	Steps []NStep `json:"steps"`
}

type NRun struct {
	nextH        bool                    // while set, candidates are built as if the node were already at the next height, view 0
	lastNVBlocks map[uint64]*fakes.Block // blocks proven by the proofs inside the last valid NEW_VIEW that was built
	W            *World
	Me           *Node
	Accepted     []bool // per cand step: did it have an effect
	Mutated      []int  // per cand step: number of mutations applied
	CandKinds    []string
	Resyncs      int
	LeaderJudged []string // C18: per judged valid proposal, how the node had entered the height and whether the view was 0
}

// NewNWorld builds a world in which only Me is a real node.
func NewNWorld(c NCase) *World {
	cfg := c.Cfg
	cfg.Byz = nil
	for i := 0; i < cfg.N; i++ {
		if i != c.Me {
			cfg.Byz = append(cfg.Byz, i)
		}
	}
	cfg.Crashed = nil
	if cfg.MaxHeight == 0 {
		cfg.MaxHeight = 2
	}
	w := NewWorld(cfg)
	w.Start()
	return w
}

func RunNCase(c NCase) *NRun {
	w := NewNWorld(c)
	r := &NRun{W: w, Me: w.Nodes[c.Me]}
	for _, st := range c.Steps {
		if w.Viol != nil {
			break
		}
		r.step(st)
	}
	return r
}

// enteredBy says how the node got to its current height (for messages).
func (r *NRun) enteredBy() string { return r.enteredByAt(r.Me.H()) }

func (r *NRun) enteredByAt(h uint64) string {
	if h == 1 {
		return "start"
	}
	for _, cm := range r.Me.Commits {
		if cm.H+1 == h {
			return "own commit"
		}
	}
	return "node sync"
}

func (r *NRun) h() uint64 {
	if r.nextH {
		return r.Me.H() + 1
	}
	return r.Me.H()
}
func (r *NRun) v() uint64 {
	if r.nextH {
		return 0
	}
	return r.Me.V()
}

func (r *NRun) others() []int { return r.W.Cfg.Byz }

// deliverSpec pushes a built message addressed to Me and delivers it at once.
func (r *NRun) deliverSpec(tag string, sp *MsgSpec) bool {
	w := r.W
	before := w.Mon.pre0(r.Me)
	raw := sp.Build()
	m := w.push(&Msg{From: -1, To: r.Me.Idx, Raw: raw, Meta: MetaOf(raw), Origin: "byz:" + tag})
	w.AdvSent = append(w.AdvSent, m)
	w.Apply(Action{K: "deliver", ID: m.ID})
	return w.Mon.effects(r.Me, before).Any()
}

func (r *NRun) step(st NStep) {
	w := r.W
	a := w.Adv
	me := r.Me
	switch st.K {
	case "timeout":
		w.Apply(Action{K: "timeout", Node: me.Idx})
	case "propose": // a valid proposal for view st.View reaches the node: PREPREPARE in view 0, a valid NEW_VIEW otherwise
		if sp := r.validProposal(st.View, st.A); sp != nil {
			h0, v0, had := r.h(), r.v(), r.storedHash(st.View) != nil
			for _, sm := range me.Sent { // a node that is prepared holds a proof of its own; the scripted votes of the others may then
				// certify another block for the same earlier view (all of them are the harness's), which it rightly refuses
				if sm.Meta.Union == UC && sm.Meta.H == h0 {
					had = true
				}
			}
			r.deliverSpec("valid-proposal", sp)
			// C18, behavioural: the member the reference places at (view mod n) IS the leader for this node too, whatever way the
			// node entered the height: its valid proposal for a view the node has not left and holds no proposal for is accepted
			if st.A != 0 {
				had = true // votes with scripted proofs: such a proof cannot always be built validly without the node's own PREPARE
			}
			if w.Cfg.Focus == "C18" && w.Viol == nil && !had && st.View >= v0 {
				r.LeaderJudged = append(r.LeaderJudged, fmt.Sprintf("%s:view0=%v", r.enteredByAt(h0), st.View == 0))
			}
			if w.Cfg.Focus == "C18" && w.Viol == nil && !had && st.View >= v0 && me.H() == h0 && r.storedHash(st.View) == nil {
				w.Viol = &ev.Violation{Property: "C18", Kind: "proposal-of-reference-leader-rejected", Replayer: "N",
					Detail: fmt.Sprintf("node %d at height %d view %d did not accept the valid proposal for view %d signed by member %d = committee[view mod n] (height entered by %s)", me.Idx, h0, v0, st.View, w.LeaderIdx(h0, st.View), r.enteredBy())}
			}
		}
	case "prepares": // PREPAREs of the others for the proposal the node holds in st.View, enough for a quorum
		hash := r.storedHash(st.View)
		if hash == nil {
			return
		}
		hs := r.h()
		leader := w.LeaderIdx(hs, st.View)
		for _, o := range r.others() {
			if o == leader {
				continue
			}
			if r.h() != hs {
				break // the node completed the height in the middle of the script (it held early COMMITs): the rest is for a height it has left
			}
			ref_ := a.ref(TP, r.h(), st.View, hash)
			r.deliverSpec("valid-prepare", &MsgSpec{Union: UP, Ref: ref_, Sender: a.signedRef(o, ref_)})
			if st.A > 0 && o >= st.A { // partial: stop early
				break
			}
		}
	case "commits":
		hash := r.storedHash(st.View)
		if hash == nil {
			return
		}
		hs := r.h()
		for _, o := range r.others() {
			if r.h() != hs {
				break
			}
			ref_ := a.ref(TC, r.h(), st.View, hash)
			r.deliverSpec("valid-commit", &MsgSpec{Union: UC, Ref: ref_, Sender: a.signedRef(o, ref_), Share: a.share(o, r.h())})
		}
	case "round":
		r.CommitRound()
	case "sync": // UpdateState with a block st.A heights above the node's current one (0: the current height's block; >0: heights are skipped)
		r.SyncAhead(uint64(st.A))
	case "resync": // the host repeats UpdateState with the block the node's current height was started from (or an older one of its own)
		r.Resync(st.A)
	case "cand":
		r.nextH = st.Next
		sp := r.candidate(st)
		n := 0
		if sp != nil {
			for _, mu := range st.Muts {
				if r.mutate(sp, mu) {
					n++
				}
			}
		}
		r.nextH = false
		if sp == nil {
			return
		}
		acc := r.deliverSpec("cand:"+st.Kind, sp)
		r.Accepted = append(r.Accepted, acc)
		r.Mutated = append(r.Mutated, n)
		r.CandKinds = append(r.CandKinds, st.Kind)
	}
}

func (r *NRun) storedHash(view uint64) []byte {
	pp, ok := r.Me.Sto.GetPreprepareMessage(primitives.BlockHeight(r.h()), primitives.View(view))
	if !ok {
		return nil
	}
	return cp(pp.Content().SignedHeader().BlockHash())
}

// freshBlock: a consumer-valid block for the node's current height.
func (r *NRun) freshBlock(tag string) *fakes.Block {
	h := r.h()
	prev := ""
	if b := r.W.Mon.per[r.Me.Idx].blockFor[h]; b != nil {
		prev = b.ID
	}
	if r.nextH { // the block the scripted round will commit at the current height (see CommitRound / validProposal: "blk/<h>/v0")
		prev = fmt.Sprintf("blk/%d/v0", h-1)
	}
	return &fakes.Block{H: primitives.BlockHeight(h), Ref: primitives.TimestampSeconds(1000 + uint32(h)), ID: fmt.Sprintf("blk/%d/%s", h, tag), Prev: prev, Valid: true}
}

// genuineProof: a valid prepared proof for block b at view pv (all signatures made with the right keys by members other than Me).
func (r *NRun) genuineProof(pv uint64, b *fakes.Block) *ProofSpec {
	w := r.W
	a := w.Adv
	h := r.h()
	leader := w.LeaderIdx(h, pv)
	if !a.owns(leader) {
		return nil
	}
	ppr := a.ref(TPP, h, pv, b.Hash())
	pr := a.ref(TP, h, pv, b.Hash())
	p := &ProofSpec{PP: ppr, PPSender: a.signedRef(leader, ppr), P: pr}
	for _, o := range r.others() {
		if o != leader {
			p.PSenders = append(p.PSenders, a.signedRef(o, pr))
		}
	}
	return p
}

// validVotes: votes of the other members for (h, v). withProof[i] >= 0 gives vote i a genuine proof for that view.
func (r *NRun) validVotes(v uint64, proofViews []int64, blocks map[uint64]*fakes.Block) []VoteSpec {
	var out []VoteSpec
	for i, o := range r.others() {
		var proof *ProofSpec
		if i < len(proofViews) && proofViews[i] >= 0 && uint64(proofViews[i]) < v {
			pv := uint64(proofViews[i])
			if blocks[pv] == nil {
				blocks[pv] = r.freshBlock(fmt.Sprintf("p%d", pv))
			}
			proof = r.genuineProof(pv, blocks[pv])
		}
		out = append(out, r.W.Adv.vote(o, r.h(), v, proof))
	}
	return out
}

// validNewView builds a reference-valid NEW_VIEW for view v (leader must not be Me). A selects which votes carry proofs.
func (r *NRun) validNewView(v uint64, A int) *MsgSpec {
	w := r.W
	a := w.Adv
	h := r.h()
	leader := w.LeaderIdx(h, v)
	if v == 0 || !a.owns(leader) {
		return nil
	}
	k := len(r.others())
	pvs := make([]int64, k)
	for i := range pvs {
		pvs[i] = -1
	}
	// A encodes up to two proofs: (A%4) and ((A/4)%4) minus one are proof views for the first two voters
	if x := int64(A%4) - 1; x >= 0 {
		pvs[0] = x
	}
	if x := int64((A/4)%4) - 1; x >= 0 && k > 1 {
		pvs[1] = x
	}
	if A >= 16 && k > 2 { // a third proof, on the last voter (so that the highest proof is not always among the first)
		pvs[k-1] = int64(A/16) % 4
	}
	blocks := map[uint64]*fakes.Block{}
	votes := r.validVotes(v, pvs, blocks)
	// the node's own genuine vote for (h,v), if it has sent one (needed when the others alone are below quorum weight)
	var voteBlocks []*fakes.Block
	for range votes {
		voteBlocks = append(voteBlocks, nil)
	}
	for _, sm := range r.Me.Sent {
		if sm.Meta.Union == UVC && sm.Meta.H == h && sm.Meta.V == v {
			votes = append(votes, VoteOf(protocol.LeanhelixContentReader(sm.Raw.Content).ViewChangeMessage()))
			voteBlocks = append(voteBlocks, fakes.AsBlock(sm.Raw.Block))
			break
		}
	}
	{
		var ids []primitives.MemberId
		for _, vt := range votes {
			ids = append(ids, primitives.MemberId(vt.Sender.ID))
		}
		if !ref.IsQuorum(ids, w.Committee(primitives.BlockHeight(h))) {
			return nil // no valid NEW_VIEW for this view can be built yet: the node itself has to vote first
		}
	}
	var best int64 = -1
	for _, vt := range votes {
		if vt.Proof != nil && int64(vt.Proof.PP.V) > best {
			best = int64(vt.Proof.PP.V)
		}
	}
	var blk *fakes.Block
	if best >= 0 {
		blk = blocks[uint64(best)]
		if blk == nil { // the highest proof is the node's own: re-propose the block it attached to its vote
			for i, vt := range votes {
				if vt.Proof != nil && int64(vt.Proof.PP.V) == best && voteBlocks[i] != nil {
					blk = voteBlocks[i]
				}
			}
		}
		if blk == nil {
			return nil
		}
	} else {
		blk = r.freshBlock(fmt.Sprintf("nv%d", v))
	}
	r.lastNVBlocks = blocks
	ppr := a.ref(TPP, h, v, blk.Hash())
	pps := a.signedRef(leader, ppr)
	sp := &MsgSpec{Union: UNV, NVType: TNV, NVInst: uint64(Instance), NVH: h, NVV: v, Votes: votes, PPRef: &ppr, PPSend: &pps, Block: blk}
	sp.Sender = SigSpec{ID: w.IDs[leader], Sig: a.sign(leader, h, sp.NVHeaderRaw())}
	return sp
}

func (r *NRun) validProposal(view uint64, A int) *MsgSpec {
	w := r.W
	a := w.Adv
	h := r.h()
	if view == 0 {
		leader := w.LeaderIdx(h, 0)
		if !a.owns(leader) {
			return nil
		}
		b := r.freshBlock("v0")
		ref_ := a.ref(TPP, h, 0, b.Hash())
		return &MsgSpec{Union: UPP, Ref: ref_, Sender: a.signedRef(leader, ref_), Block: b}
	}
	return r.validNewView(view, A)
}

// candidate builds the VALID form of the candidate message for the node's current state.
func (r *NRun) candidate(st NStep) *MsgSpec {
	w := r.W
	a := w.Adv
	h, v := r.h(), r.v()
	others := r.others()
	pick := func(k int) int { return others[((k%len(others))+len(others))%len(others)] }
	switch st.Kind {
	case "PP": // stand-alone PREPREPARE for the current view from its leader
		leader := w.LeaderIdx(h, v)
		if !a.owns(leader) {
			return nil
		}
		b := r.freshBlock(fmt.Sprintf("pp%d", v))
		ref_ := a.ref(TPP, h, v, b.Hash())
		return &MsgSpec{Union: UPP, Ref: ref_, Sender: a.signedRef(leader, ref_), Block: b}
	case "P":
		view := v + uint64(st.A%3)
		s := pick(st.From)
		if s == w.LeaderIdx(h, view) {
			s = pick(st.From + 1)
		}
		if s == w.LeaderIdx(h, view) {
			return nil
		}
		hash := r.storedHash(view)
		if hash == nil {
			hash = r.freshBlock("x").Hash()
		}
		ref_ := a.ref(TP, h, view, hash)
		return &MsgSpec{Union: UP, Ref: ref_, Sender: a.signedRef(s, ref_)}
	case "PL": // PREPARE for an upcoming view, genuinely signed by THAT view's leader, naming the block that leader will propose there
		view := v + 1 + uint64(st.A%2)
		leader := w.LeaderIdx(h, view)
		if !a.owns(leader) {
			return nil
		}
		ref_ := a.ref(TP, h, view, r.freshBlock(fmt.Sprintf("nv%d", view)).Hash())
		return &MsgSpec{Union: UP, Ref: ref_, Sender: a.signedRef(leader, ref_)}
	case "C":
		view := v + uint64(st.A%3)
		if st.A%5 == 4 && v > 0 {
			view = v - 1
		}
		s := pick(st.From)
		hash := r.storedHash(view)
		if hash == nil {
			hash = r.freshBlock("x").Hash()
		}
		ref_ := a.ref(TC, h, view, hash)
		return &MsgSpec{Union: UC, Ref: ref_, Sender: a.signedRef(s, ref_), Share: a.share(s, h)}
	case "VC": // addressed to Me as leader of the smallest view >= max(v,1) that Me leads (+ A%2 rounds)
		view := v
		if view == 0 {
			view = 1
		}
		for k := 0; k < w.Cfg.N && w.LeaderIdx(h, view) != r.Me.Idx; k++ {
			view++
		}
		if w.LeaderIdx(h, view) != r.Me.Idx {
			return nil
		}
		view += uint64(st.A%2) * uint64(w.Cfg.N)
		s := pick(st.From)
		var proof *ProofSpec
		var blk *fakes.Block
		if st.B%3 != 0 && view > 0 {
			pv := uint64(st.B/3) % view
			blk = r.freshBlock(fmt.Sprintf("vcp%d", pv))
			proof = r.genuineProof(pv, blk)
			if proof == nil {
				blk = nil
			}
		}
		vs := a.vote(s, h, view, proof)
		return &MsgSpec{Union: UVC, Vote: &vs, Block: blk}
	case "NV":
		view := v + uint64(st.A%3)
		if view == 0 {
			view = 1
		}
		for k := 0; k < w.Cfg.N && w.LeaderIdx(h, view) == r.Me.Idx; k++ {
			view++
		}
		return r.validNewView(view, st.B)
	}
	return nil
}

// ---------------------------------------------------------------- mutation catalogue

var MutationKinds = []string{
	"inst", "height", "view", "hash", "type", "union", "sender", "sig", "share", "block",
	"proof-drop", "proof-view", "proof-hash", "proof-pp-signer", "proof-pp-sig", "proof-dup-preparer", "proof-leader-preparer",
	"proof-outsider-preparer", "proof-preparer-sig", "proof-below-quorum", "proof-inst", "proof-height", "proof-types", "proof-add",
	"votes-drop", "votes-dup", "votes-unsigned", "votes-resigned-by-other", "votes-outsider", "votes-view", "votes-height", "votes-inst", "votes-type",
	"nvpp-view", "nvpp-height", "nvpp-hash", "nvpp-signer", "nvpp-sig", "nvpp-type", "nvpp-inst", "nv-other-block", "nv-invalid-block", "nv-ignore-lock",
	"nv-lower-proof-block", "nv-lower-proof-block", "votes-reverse", "proof-pp-view", "proof-pp-view",
	"votes-one-member", "votes-one-member",
}

func otherType(t uint16, a int) uint16 {
	all := []uint16{TPP, TP, TC, TNV, TVC, 0, 9}
	x := all[a%len(all)]
	if x == t {
		x = all[(a+1)%len(all)]
	}
	return x
}

func bigView(a int, cur uint64) uint64 {
	switch a % 7 {
	case 0:
		if cur > 0 {
			return cur - 1
		}
		return cur + 1
	case 1:
		return cur + 1
	case 2:
		return cur + 3
	case 3:
		return 1 << 63
	case 4:
		return ^uint64(0)
	case 5:
		return 1<<63 - 1
	}
	return 0
}

// mutate applies one mutation to the spec; returns false if it does not apply to this kind of message.
func (r *NRun) mutate(sp *MsgSpec, mu Mutation) bool {
	w := r.W
	a := w.Adv
	h := r.h()
	idxOf := func(id []byte) int { return w.IdxOf(primitives.MemberId(id)) }
	resignRef := func(ref_ *RefSpec, s *SigSpec) {
		if i := idxOf(s.ID); a.owns(i) {
			s.Sig = a.sign(i, ref_.H, ref_.Raw())
		}
	}
	resignVote := func(v *VoteSpec) {
		if i := idxOf(v.Sender.ID); a.owns(i) {
			v.Sender.Sig = a.sign(i, v.H, v.HeaderRaw())
		}
	}
	resignNV := func() {
		if sp.Union == UNV {
			if i := idxOf(sp.Sender.ID); a.owns(i) {
				sp.Sender.Sig = a.sign(i, sp.NVH, sp.NVHeaderRaw())
			}
		}
	}
	otherID := func(k int) []byte {
		switch k % 5 {
		case 0:
			if w.Cfg.Outsiders > 0 {
				return w.IDs[w.Cfg.N]
			}
			return []byte("nobody")
		case 1:
			return r.Me.ID
		case 2:
			return nil
		case 3:
			return []byte("nobody")
		}
		return w.IDs[r.others()[k%len(r.others())]]
	}
	isRefMsg := sp.Union == UPP || sp.Union == UP || sp.Union == UC
	// the header a generic mutation targets
	switch mu.K {
	case "inst", "height", "view", "type":
		switch {
		case isRefMsg:
			switch mu.K {
			case "inst":
				sp.Ref.Inst += uint64(1 + mu.A%3)
			case "height":
				sp.Ref.H = []uint64{h - 1, h + 1, h + 2, 1 << 63, ^uint64(0)}[mu.A%5]
			case "view":
				sp.Ref.V = bigView(mu.A, sp.Ref.V)
			case "type":
				sp.Ref.Type = otherType(sp.Ref.Type, mu.A)
			}
			if mu.Resign {
				resignRef(&sp.Ref, &sp.Sender)
			}
		case sp.Union == UVC:
			v := sp.Vote
			switch mu.K {
			case "inst":
				v.Inst += uint64(1 + mu.A%3)
			case "height":
				v.H = []uint64{h - 1, h + 1, h + 2, 1 << 63, ^uint64(0)}[mu.A%5]
			case "view":
				v.V = bigView(mu.A, v.V)
			case "type":
				v.Type = otherType(v.Type, mu.A)
			}
			if mu.Resign {
				resignVote(v)
			}
		case sp.Union == UNV:
			switch mu.K {
			case "inst":
				sp.NVInst += uint64(1 + mu.A%3)
			case "height":
				sp.NVH = []uint64{h - 1, h + 1, h + 2, 1 << 63, ^uint64(0)}[mu.A%5]
			case "view":
				sp.NVV = bigView(mu.A, sp.NVV)
			case "type":
				sp.NVType = otherType(sp.NVType, mu.A)
			}
			if mu.Resign {
				resignNV()
			}
		}
		return true
	case "hash":
		if !isRefMsg {
			return false
		}
		sp.Ref.Hash = r.freshBlock(fmt.Sprintf("other%d", mu.A%3)).Hash()
		if mu.Resign {
			resignRef(&sp.Ref, &sp.Sender)
		}
		return true
	case "union":
		if !isRefMsg {
			return false
		}
		sp.Union = (sp.Union + 1 + mu.A%2) % 3
		if sp.Union == UC && len(sp.Share) == 0 {
			if i := idxOf(sp.Sender.ID); a.owns(i) {
				sp.Share = a.share(i, h)
			}
		}
		return true
	case "sender":
		var s *SigSpec
		switch {
		case sp.Union == UVC:
			s = &sp.Vote.Sender
		default:
			s = &sp.Sender
		}
		s.ID = otherID(mu.A)
		if mu.Resign {
			switch {
			case isRefMsg:
				resignRef(&sp.Ref, s)
			case sp.Union == UVC:
				resignVote(sp.Vote)
			default:
				resignNV()
			}
		}
		return true
	case "sig":
		var s *SigSpec
		if sp.Union == UVC {
			s = &sp.Vote.Sender
		} else {
			s = &sp.Sender
		}
		switch mu.A % 4 {
		case 0:
			s.Sig = []byte("garbage-signature-garbage-signat")
		case 1:
			s.Sig = nil
		case 2: // signed by another key the harness owns
			o := r.others()[mu.A/4%len(r.others())]
			if primitives.MemberId(s.ID).Equal(w.IDs[o]) {
				o = r.others()[(mu.A/4+1)%len(r.others())]
			}
			switch {
			case isRefMsg:
				s.Sig = a.sign(o, sp.Ref.H, sp.Ref.Raw())
			case sp.Union == UVC:
				s.Sig = a.sign(o, sp.Vote.H, sp.Vote.HeaderRaw())
			default:
				s.Sig = a.sign(o, sp.NVH, sp.NVHeaderRaw())
			}
		case 3: // flip one bit
			if len(s.Sig) > 0 {
				s.Sig = cp(s.Sig)
				s.Sig[mu.A/4%len(s.Sig)] ^= 1
			}
		}
		return true
	case "share":
		if sp.Union != UC {
			return false
		}
		switch mu.A % 4 {
		case 0:
			sp.Share = []byte("garbage")
		case 1:
			sp.Share = nil
		case 2: // another member's share
			o := r.others()[mu.A/4%len(r.others())]
			if primitives.MemberId(sp.Sender.ID).Equal(w.IDs[o]) {
				o = r.others()[(mu.A/4+1)%len(r.others())]
			}
			sp.Share = a.share(o, h)
		case 3: // own share for another height
			if i := idxOf(sp.Sender.ID); a.owns(i) {
				sp.Share = w.Reg.ShareAs(w.IDs[i], primitives.BlockHeight(h+1), ref.SeedBytes(w.SeedAt(h)))
			}
		}
		return true
	case "block":
		if sp.Union != UPP && sp.Union != UVC && sp.Union != UNV {
			return false
		}
		switch mu.A % 3 {
		case 0:
			sp.Block = nil
		case 1:
			sp.Block = r.freshBlock("otherblock")
		case 2:
			if sp.Block != nil {
				b := *sp.Block
				b.Valid = false
				sp.Block = &b
			}
		}
		return true
	}
	// ---- proofs inside a VIEW_CHANGE (or inside the first vote of a NEW_VIEW that has one)
	if len(mu.K) > 6 && mu.K[:6] == "proof-" {
		var vote *VoteSpec
		if sp.Union == UVC {
			vote = sp.Vote
		} else if sp.Union == UNV {
			for i := range sp.Votes {
				if sp.Votes[i].Proof != nil {
					vote = &sp.Votes[i]
					break
				}
			}
			if vote == nil && mu.K == "proof-add" && len(sp.Votes) > 0 {
				vote = &sp.Votes[0]
			}
		}
		if vote == nil {
			return false
		}
		if mu.K == "proof-add" {
			if vote.Proof != nil || vote.V == 0 {
				return false
			}
			// a forged proof (garbage PREPARE signatures) for a block of the adversary's choosing
			b := r.freshBlock("forged")
			vote.Proof = a.forgedProof(idxOf(vote.Sender.ID), vote.H, uint64(mu.A)%vote.V, b, 0)
			if sp.Union == UVC {
				sp.Block = b
			}
			resignVote(vote)
			resignNV()
			return true
		}
		p := vote.Proof
		if p == nil {
			return false
		}
		switch mu.K {
		case "proof-drop":
			vote.Proof = nil
		case "proof-view":
			nv := vote.V + uint64(mu.A%2)
			p.PP.V, p.P.V = nv, nv
			if mu.Resign {
				r.resignProof(p)
			}
		case "proof-pp-view": // the PREPREPARE reference claims another (later or earlier) view than the PREPAREs were given in,
			// signed by that other view's leader: the proof would rank by a view nobody prepared in
			nv := p.PP.V + 1 + uint64(mu.A%3)
			if mu.A%4 == 3 && p.PP.V > 0 {
				nv = p.PP.V - 1
			}
			if nv >= vote.V {
				return false
			}
			li := w.LeaderIdx(vote.H, nv)
			if !a.owns(li) {
				return false
			}
			p.PP.V = nv
			p.PPSender = a.signedRef(li, p.PP)
			// the claimed view's leader must not appear among the preparers (it would be rejected for that reason alone)
			var keep []SigSpec
			for _, ps := range p.PSenders {
				if !primitives.MemberId(ps.ID).Equal(w.IDs[li]) {
					keep = append(keep, ps)
				}
			}
			p.PSenders = keep
		case "proof-hash":
			p.P.Hash = r.freshBlock("ph").Hash()
			if mu.Resign {
				for i := range p.PSenders {
					resignRef(&p.P, &p.PSenders[i])
				}
			}
		case "proof-pp-signer":
			o := r.others()[mu.A%len(r.others())]
			if primitives.MemberId(p.PPSender.ID).Equal(w.IDs[o]) {
				o = r.others()[(mu.A+1)%len(r.others())]
			}
			p.PPSender = a.signedRef(o, p.PP)
		case "proof-pp-sig":
			p.PPSender.Sig = []byte("garbage-signature-garbage-signat")
		case "proof-dup-preparer":
			if len(p.PSenders) == 0 {
				return false
			}
			p.PSenders = append(p.PSenders, p.PSenders[mu.A%len(p.PSenders)])
		case "proof-leader-preparer":
			if i := idxOf(p.PPSender.ID); a.owns(i) {
				p.PSenders = append(p.PSenders, a.signedRef(i, p.P))
			}
		case "proof-outsider-preparer":
			if w.Cfg.Outsiders == 0 {
				return false
			}
			// replace a genuine preparer by an outsider (keeps the count, loses member weight) or add one
			o := a.signedRef(w.Cfg.N, p.P)
			if mu.A%2 == 0 && len(p.PSenders) > 0 {
				p.PSenders[0] = o
			} else {
				p.PSenders = append(p.PSenders, o)
			}
		case "proof-preparer-sig":
			if len(p.PSenders) == 0 {
				return false
			}
			p.PSenders[mu.A%len(p.PSenders)].Sig = []byte("garbage-signature-garbage-signat")
		case "proof-below-quorum":
			if len(p.PSenders) == 0 {
				return false
			}
			p.PSenders = p.PSenders[:len(p.PSenders)-1-mu.A%len(p.PSenders)]
		case "proof-inst": // both references, or only one of them (the two halves of a proof must name ONE instance / height)
			switch mu.A % 3 {
			case 0:
				p.PP.Inst++
				p.P.Inst++
			case 1:
				p.P.Inst++
			case 2:
				p.PP.Inst++
			}
			if mu.Resign {
				r.resignProof(p)
			}
		case "proof-height":
			switch mu.A % 3 {
			case 0:
				p.PP.H++
				p.P.H++
			case 1:
				p.P.H++
			case 2:
				p.PP.H++
			}
			if mu.Resign {
				r.resignProof(p)
			}
		case "proof-types":
			switch mu.A % 3 {
			case 0:
				p.PP.Type, p.P.Type = TP, TPP
			case 1:
				p.P.Type = TC
			case 2:
				p.PP.Type = TC
			}
			if mu.Resign {
				r.resignProof(p)
			}
		}
		resignVote(vote) // the proof is inside the signed vote header: a real sender re-signs
		resignNV()
		return true
	}
	if sp.Union != UNV {
		return false
	}
	// ---- NEW_VIEW specific
	nvotes := len(sp.Votes)
	switch mu.K {
	case "votes-drop":
		k := 1 + mu.A%maxInt(1, nvotes)
		if k > nvotes {
			k = nvotes
		}
		sp.Votes = sp.Votes[:nvotes-k]
	case "votes-dup":
		if nvotes == 0 {
			return false
		}
		sp.Votes = append(sp.Votes, sp.Votes[mu.A%nvotes])
	case "votes-one-member": // every vote is by ONE member: genuinely signed variants that differ in bytes (with / without proof, other proof views)
		if nvotes == 0 {
			return false
		}
		who := -1
		for k := 0; k < nvotes; k++ {
			if i := idxOf(sp.Votes[(mu.A+k)%nvotes].Sender.ID); a.owns(i) {
				who = i
				break
			}
		}
		if who < 0 {
			return false
		}
		var vs []VoteSpec
		vs = append(vs, a.vote(who, sp.NVH, sp.NVV, nil))
		for pv := uint64(0); pv < sp.NVV && len(vs) < nvotes+1; pv++ {
			if p := r.genuineProof(pv, r.freshBlock(fmt.Sprintf("one%d", pv))); p != nil {
				vs = append(vs, a.vote(who, sp.NVH, sp.NVV, p))
			}
		}
		for len(vs) < nvotes { // pad with byte-identical repeats if the views do not give enough variants
			vs = append(vs, vs[(len(vs)-1)%2%len(vs)])
		}
		sp.Votes = vs
	case "votes-unsigned":
		if nvotes == 0 {
			return false
		}
		sp.Votes[mu.A%nvotes].Sender.Sig = []byte("garbage-signature-garbage-signat")
	case "votes-resigned-by-other":
		if nvotes < 2 {
			return false
		}
		i := mu.A % nvotes
		j := (i + 1) % nvotes
		if !a.owns(idxOf(sp.Votes[j].Sender.ID)) { // never sign with the key of the node under test
			j = (j + 1) % nvotes
		}
		if j == i || !a.owns(idxOf(sp.Votes[j].Sender.ID)) {
			return false
		}
		sp.Votes[i].Sender.Sig = a.sign(idxOf(sp.Votes[j].Sender.ID), sp.Votes[i].H, sp.Votes[i].HeaderRaw())
	case "votes-outsider":
		if w.Cfg.Outsiders == 0 || nvotes == 0 {
			return false
		}
		sp.Votes[mu.A%nvotes] = a.vote(w.Cfg.N, sp.NVH, sp.NVV, nil)
	case "votes-view":
		if nvotes == 0 {
			return false
		}
		vt := &sp.Votes[mu.A%nvotes]
		vt.V = bigView(mu.A/nvotes, vt.V)
		resignVote(vt)
	case "votes-height":
		if nvotes == 0 {
			return false
		}
		vt := &sp.Votes[mu.A%nvotes]
		vt.H++
		resignVote(vt)
	case "votes-inst":
		if nvotes == 0 {
			return false
		}
		vt := &sp.Votes[mu.A%nvotes]
		vt.Inst++
		resignVote(vt)
	case "votes-type":
		if nvotes == 0 {
			return false
		}
		vt := &sp.Votes[mu.A%nvotes]
		vt.Type = otherType(vt.Type, mu.A/nvotes)
		resignVote(vt)
	case "nvpp-view":
		sp.PPRef.V = bigView(mu.A, sp.PPRef.V)
		resignRef(sp.PPRef, sp.PPSend)
	case "nvpp-height":
		sp.PPRef.H++
		resignRef(sp.PPRef, sp.PPSend)
	case "nvpp-inst":
		sp.PPRef.Inst++
		resignRef(sp.PPRef, sp.PPSend)
	case "nvpp-type":
		sp.PPRef.Type = otherType(sp.PPRef.Type, mu.A)
		resignRef(sp.PPRef, sp.PPSend)
	case "nvpp-hash":
		sp.PPRef.Hash = r.freshBlock("nvpph").Hash()
		resignRef(sp.PPRef, sp.PPSend)
	case "nvpp-signer":
		o := r.others()[mu.A%len(r.others())]
		if primitives.MemberId(sp.PPSend.ID).Equal(w.IDs[o]) {
			o = r.others()[(mu.A+1)%len(r.others())]
		}
		*sp.PPSend = a.signedRef(o, *sp.PPRef)
	case "nvpp-sig":
		sp.PPSend.Sig = []byte("garbage-signature-garbage-signat")
	case "nv-other-block", "nv-ignore-lock": // consistent proposal of ANOTHER (consumer-valid) block: header and attachment agree
		b := r.freshBlock("nvother")
		sp.Block = b
		sp.PPRef.Hash = b.Hash()
		resignRef(sp.PPRef, sp.PPSend)
	case "nv-lower-proof-block": // several proofs among the votes: re-propose the block of a LOWER one, consistently
		var lowV, highV int64 = 1 << 62, -1
		for _, vt := range sp.Votes {
			if vt.Proof != nil {
				if int64(vt.Proof.PP.V) < lowV {
					lowV = int64(vt.Proof.PP.V)
				}
				if int64(vt.Proof.PP.V) > highV {
					highV = int64(vt.Proof.PP.V)
				}
			}
		}
		if highV < 0 || lowV == highV || r.lastNVBlocks[uint64(lowV)] == nil {
			return false
		}
		b := r.lastNVBlocks[uint64(lowV)]
		sp.Block = b
		sp.PPRef.Hash = b.Hash()
		resignRef(sp.PPRef, sp.PPSend)
	case "votes-reverse": // same votes in another order (the order must not matter)
		for i, j := 0, len(sp.Votes)-1; i < j; i, j = i+1, j-1 {
			sp.Votes[i], sp.Votes[j] = sp.Votes[j], sp.Votes[i]
		}
	case "nv-invalid-block":
		b := r.freshBlock("nvinvalid")
		b.Valid = false
		sp.Block = b
		sp.PPRef.Hash = b.Hash()
		resignRef(sp.PPRef, sp.PPSend)
	default:
		return false
	}
	resignNV()
	return true
}

func (r *NRun) resignProof(p *ProofSpec) {
	w := r.W
	a := w.Adv
	if i := w.IdxOf(primitives.MemberId(p.PPSender.ID)); a.owns(i) {
		p.PPSender.Sig = a.sign(i, p.PP.H, p.PP.Raw())
	}
	for k := range p.PSenders {
		if i := w.IdxOf(primitives.MemberId(p.PSenders[k].ID)); a.owns(i) {
			p.PSenders[k].Sig = a.sign(i, p.P.H, p.P.Raw())
		}
	}
}

func maxInt(a, b int) int {
	if a > b {
		return a
	}
	return b
}

var _ = protocol.LEAN_HELIX_COMMIT

// ---------------------------------------------------------------- C12 helpers (engine N): hostile input, then the node must still work

// DeliverRaw runs the main-loop step and the worker step for arbitrary content bytes, each under recover.
// It returns the recovered panic values ("" = none).
func (r *NRun) DeliverRaw(content []byte, block *fakes.Block) (mainPanic, workerPanic string) {
	raw := &interfaces.ConsensusRawMessage{Content: content}
	if block != nil {
		raw.Block = block
	}
	func() {
		defer func() {
			if x := recover(); x != nil {
				mainPanic = fmt.Sprint(x)
			}
		}()
		r.Me.VN.Gc()
		r.Me.VN.MainMessage(raw)
	}()
	func() {
		defer func() {
			if x := recover(); x != nil {
				workerPanic = fmt.Sprint(x)
			}
		}()
		r.Me.VN.WorkerMessage(raw)
	}()
	return
}

// SyncPast moves the node past its current height the way a consumer's block sync does: UpdateState with a block of that height.
func (r *NRun) SyncPast() {
	w := r.W
	n := r.Me
	h := r.h()
	b := r.freshBlock("sync")
	nm := w.Mon.per[n.Idx]
	n.Inbox = append(n.Inbox, InEvent{Kind: "sync", Block: b})
	pre := w.Mon.pre(n)
	w.guard(n, func() {
		n.VN.Gc()
		if n.VN.MainUpdateState(b, nil) {
			nm.blockFor[h+1] = b
			nm.proofFor[h+1] = nil
			n.VN.WorkerUpdateState(b, nil)
		}
	})
	w.Mon.onSync(n, &Commit{H: h, Block: b}, pre)
}

// SyncAhead: UpdateState with a block of height (current + ahead): the node jumps to (current + ahead + 1), skipping "ahead" heights.
func (r *NRun) SyncAhead(ahead uint64) {
	w := r.W
	n := r.Me
	h := r.h() + ahead
	if h+1 > w.Cfg.MaxHeight {
		h = r.h()
	}
	b := &fakes.Block{H: primitives.BlockHeight(h), Ref: primitives.TimestampSeconds(1000 + uint32(h)), ID: fmt.Sprintf("blk/%d/far", h), Prev: "unknown", Valid: true}
	nm := w.Mon.per[n.Idx]
	n.Inbox = append(n.Inbox, InEvent{Kind: "sync", Block: b})
	pre := w.Mon.pre(n)
	w.guard(n, func() {
		n.VN.Gc()
		if n.VN.MainUpdateState(b, nil) {
			nm.blockFor[h+1] = b
			nm.proofFor[h+1] = nil
			n.VN.WorkerUpdateState(b, nil)
		}
	})
	w.Mon.onSync(n, &Commit{H: h, Block: b}, pre)
}

// Resync hands the node a block it already has: the one its current height was started from (back == 0) or an earlier one of
// its own commits. Such an UpdateState changes nothing; whatever the node emits afterwards is judged as before.
func (r *NRun) Resync(back int) {
	w := r.W
	n := r.Me
	nm := w.Mon.per[n.Idx]
	h := r.h()
	var c *Commit
	for k := range n.Commits {
		if n.Commits[k].H+1 == h || (back > 0 && n.Commits[k].H < h && c == nil) {
			c = &n.Commits[k]
		}
	}
	if c == nil {
		if b := nm.blockFor[h]; b != nil && h > 1 { // entered by sync: the very same block again
			c = &Commit{H: h - 1, Block: b, Proof: nm.proofFor[h]}
		}
	}
	if c == nil {
		return
	}
	n.Inbox = append(n.Inbox, InEvent{Kind: "sync", Block: c.Block, Proof: c.Proof})
	pre := w.Mon.pre(n)
	spi := w.Mon.spiSnap(n)
	w.guard(n, func() {
		n.VN.Gc()
		if n.VN.MainUpdateState(c.Block, c.Proof) {
			n.VN.WorkerUpdateState(c.Block, c.Proof)
		}
	})
	w.Mon.onSync(n, c, pre)
	if c.H < pre.H {
		w.Mon.staleSyncChangedNothing(n, c, pre, spi)
	}
	r.Resyncs++
}

// CommitRound plays the other members through one complete valid round at the node's current height.
// It returns true if the node committed that height.
func (r *NRun) CommitRound() bool {
	w := r.W
	h0 := r.h()
	before := len(r.Me.Commits)
	for attempt := 0; attempt < 2*w.Cfg.N+4 && len(r.Me.Commits) == before && w.Viol == nil; attempt++ {
		v := r.v()
		if r.storedHash(v) == nil {
			if v == 0 && w.LeaderIdx(h0, 0) != r.Me.Idx {
				r.step(NStep{K: "propose", View: 0})
			} else if w.LeaderIdx(h0, v) != r.Me.Idx {
				r.step(NStep{K: "propose", View: v}) // a valid NEW_VIEW for the view the node is in (includes its own vote if it sent one)
			}
		}
		if r.storedHash(r.v()) != nil {
			r.step(NStep{K: "prepares", View: r.v()})
			if len(r.Me.Commits) == before {
				r.step(NStep{K: "commits", View: r.v()})
			}
		}
		if len(r.Me.Commits) == before {
			r.step(NStep{K: "timeout"})
			// if the node now leads, the others vote for it
			if nv := r.v(); w.LeaderIdx(h0, nv) == r.Me.Idx {
				for _, o := range r.others() {
					vs := w.Adv.vote(o, h0, nv, nil)
					r.deliverSpec("valid-vote", &MsgSpec{Union: UVC, Vote: &vs})
				}
			}
		}
	}
	return len(r.Me.Commits) > before
}

// RunNPrefix builds the world and executes the steps (exported for C12, which continues with raw input).
func RunNPrefix(c NCase) *NRun { return RunNCase(c) }

// ValidContent returns the serialised content of the VALID candidate described by st (nil if not applicable).
func (r *NRun) ValidCandidate(st NStep) *MsgSpec { return r.candidate(st) }

// Mutate is the exported form of the mutation catalogue.
func (r *NRun) Mutate(sp *MsgSpec, mu Mutation) bool { return r.mutate(sp, mu) }
