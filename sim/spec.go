// Package sim: engines S (deterministic cluster simulator over real node code) and N (one real node, harness holds every key).
package sim

import (
	"github.com/orbs-network/lean-helix-go/services/interfaces"
	"github.com/orbs-network/lean-helix-go/spec/types/go/primitives"
	"github.com/orbs-network/lean-helix-go/spec/types/go/protocol"

	"verif/fakes"
)

// Structured (JSON-able, shrinkable) description of a consensus message. Everything, including signature bytes, is explicit,
// so that a genuine message can be parsed into a spec, mutated field by field, and rebuilt.

const (
	UPP = 0 // union (envelope) tags = protocol.LEANHELIX_CONTENT_MESSAGE_*
	UP  = 1
	UC  = 2
	UVC = 3
	UNV = 4
)

const (
	TPP = uint16(protocol.LEAN_HELIX_PREPREPARE)
	TP  = uint16(protocol.LEAN_HELIX_PREPARE)
	TC  = uint16(protocol.LEAN_HELIX_COMMIT)
	TNV = uint16(protocol.LEAN_HELIX_NEW_VIEW)
	TVC = uint16(protocol.LEAN_HELIX_VIEW_CHANGE)
)

type RefSpec struct {
	Type uint16 `json:"t"`
	Inst uint64 `json:"i"`
	H    uint64 `json:"h"`
	V    uint64 `json:"v"`
	Hash []byte `json:"hash"`
}

type SigSpec struct {
	ID  []byte `json:"id"`
	Sig []byte `json:"sig"`
}

type ProofSpec struct {
	PP       RefSpec   `json:"pp"`
	PPSender SigSpec   `json:"pps"`
	P        RefSpec   `json:"p"`
	PSenders []SigSpec `json:"ps"`
}

type VoteSpec struct {
	Type   uint16     `json:"t"`
	Inst   uint64     `json:"i"`
	H      uint64     `json:"h"`
	V      uint64     `json:"v"`
	Proof  *ProofSpec `json:"proof,omitempty"`
	Sender SigSpec    `json:"sender"`
}

type MsgSpec struct {
	Union int `json:"u"`
	// PP / P / C
	Ref    RefSpec `json:"ref"`
	Sender SigSpec `json:"sender"`
	Share  []byte  `json:"share,omitempty"`
	// VC
	Vote *VoteSpec `json:"vote,omitempty"`
	// NV
	NVType uint16       `json:"nvt,omitempty"`
	NVInst uint64       `json:"nvi,omitempty"`
	NVH    uint64       `json:"nvh,omitempty"`
	NVV    uint64       `json:"nvv,omitempty"`
	Votes  []VoteSpec   `json:"votes,omitempty"`
	PPRef  *RefSpec     `json:"ppref,omitempty"`
	PPSend *SigSpec     `json:"ppsend,omitempty"`
	Block  *fakes.Block `json:"block,omitempty"`
}

func (r RefSpec) builder() *protocol.BlockRefBuilder {
	return &protocol.BlockRefBuilder{MessageType: protocol.MessageType(r.Type), InstanceId: primitives.InstanceId(r.Inst), BlockHeight: primitives.BlockHeight(r.H), View: primitives.View(r.V), BlockHash: r.Hash}
}

// Raw returns the bytes that are signed for this header.
func (r RefSpec) Raw() []byte { return r.builder().Build().Raw() }

func (s SigSpec) builder() *protocol.SenderSignatureBuilder {
	return &protocol.SenderSignatureBuilder{MemberId: s.ID, Signature: s.Sig}
}

func (p *ProofSpec) builder() *protocol.PreparedProofBuilder {
	if p == nil {
		return nil
	}
	ps := make([]*protocol.SenderSignatureBuilder, len(p.PSenders))
	for i, s := range p.PSenders {
		ps[i] = s.builder()
	}
	return &protocol.PreparedProofBuilder{PreprepareBlockRef: p.PP.builder(), PreprepareSender: p.PPSender.builder(), PrepareBlockRef: p.P.builder(), PrepareSenders: ps}
}

func (v *VoteSpec) headerBuilder() *protocol.ViewChangeHeaderBuilder {
	return &protocol.ViewChangeHeaderBuilder{MessageType: protocol.MessageType(v.Type), InstanceId: primitives.InstanceId(v.Inst), BlockHeight: primitives.BlockHeight(v.H), View: primitives.View(v.V), PreparedProof: v.Proof.builder()}
}

// HeaderRaw returns the bytes that are signed for a vote.
func (v *VoteSpec) HeaderRaw() []byte { return v.headerBuilder().Build().Raw() }

func (v *VoteSpec) builder() *protocol.ViewChangeMessageContentBuilder {
	return &protocol.ViewChangeMessageContentBuilder{SignedHeader: v.headerBuilder(), Sender: v.Sender.builder()}
}

func (m *MsgSpec) nvHeaderBuilder() *protocol.NewViewHeaderBuilder {
	vs := make([]*protocol.ViewChangeMessageContentBuilder, len(m.Votes))
	for i := range m.Votes {
		vs[i] = m.Votes[i].builder()
	}
	return &protocol.NewViewHeaderBuilder{MessageType: protocol.MessageType(m.NVType), InstanceId: primitives.InstanceId(m.NVInst), BlockHeight: primitives.BlockHeight(m.NVH), View: primitives.View(m.NVV), ViewChangeConfirmations: vs}
}

// NVHeaderRaw returns the bytes that are signed for a NEW_VIEW header.
func (m *MsgSpec) NVHeaderRaw() []byte { return m.nvHeaderBuilder().Build().Raw() }

// Build serialises the spec into a raw consensus message.
func (m *MsgSpec) Build() *interfaces.ConsensusRawMessage {
	c := &protocol.LeanhelixContentBuilder{Message: protocol.LeanhelixContentMessage(m.Union)}
	switch m.Union {
	case UPP:
		c.PreprepareMessage = &protocol.PreprepareContentBuilder{SignedHeader: m.Ref.builder(), Sender: m.Sender.builder()}
	case UP:
		c.PrepareMessage = &protocol.PrepareContentBuilder{SignedHeader: m.Ref.builder(), Sender: m.Sender.builder()}
	case UC:
		c.CommitMessage = &protocol.CommitContentBuilder{SignedHeader: m.Ref.builder(), Sender: m.Sender.builder(), Share: m.Share}
	case UVC:
		v := m.Vote
		if v == nil {
			v = &VoteSpec{}
		}
		c.ViewChangeMessage = v.builder()
	case UNV:
		nv := &protocol.NewViewMessageContentBuilder{SignedHeader: m.nvHeaderBuilder(), Sender: m.Sender.builder()}
		if m.PPRef != nil {
			pps := SigSpec{}
			if m.PPSend != nil {
				pps = *m.PPSend
			}
			nv.Message = &protocol.PreprepareContentBuilder{SignedHeader: m.PPRef.builder(), Sender: pps.builder()}
		}
		c.NewViewMessage = nv
	}
	raw := &interfaces.ConsensusRawMessage{Content: c.Build().Raw()}
	if m.Block != nil {
		raw.Block = m.Block
	}
	return raw
}

// ---------------------------------------------------------------- parsing a raw message back into a spec

func refOf(r *protocol.BlockRef) RefSpec {
	return RefSpec{Type: uint16(r.MessageType()), Inst: uint64(r.InstanceId()), H: uint64(r.BlockHeight()), V: uint64(r.View()), Hash: cp(r.BlockHash())}
}

func sigOf(s *protocol.SenderSignature) SigSpec {
	return SigSpec{ID: cp(s.MemberId()), Sig: cp(s.Signature())}
}

func cp(b []byte) []byte {
	if b == nil {
		return nil
	}
	return append([]byte{}, b...)
}

func proofOf(p *protocol.PreparedProof) *ProofSpec {
	if p == nil || len(p.Raw()) == 0 {
		return nil
	}
	ps := &ProofSpec{PP: refOf(p.PreprepareBlockRef()), PPSender: sigOf(p.PreprepareSender()), P: refOf(p.PrepareBlockRef())}
	it := p.PrepareSendersIterator()
	for it.HasNext() {
		ps.PSenders = append(ps.PSenders, sigOf(it.NextPrepareSenders()))
	}
	return ps
}

func VoteOf(vc *protocol.ViewChangeMessageContent) VoteSpec {
	h := vc.SignedHeader()
	return VoteSpec{Type: uint16(h.MessageType()), Inst: uint64(h.InstanceId()), H: uint64(h.BlockHeight()), V: uint64(h.View()), Proof: proofOf(h.PreparedProof()), Sender: sigOf(vc.Sender())}
}

// SpecOf parses a (well-formed) raw message into a spec. Returns nil for an unknown envelope.
func SpecOf(raw *interfaces.ConsensusRawMessage) *MsgSpec {
	r := protocol.LeanhelixContentReader(raw.Content)
	m := &MsgSpec{Block: fakes.AsBlock(raw.Block)}
	switch {
	case r.IsMessagePreprepareMessage():
		m.Union = UPP
		m.Ref, m.Sender = refOf(r.PreprepareMessage().SignedHeader()), sigOf(r.PreprepareMessage().Sender())
	case r.IsMessagePrepareMessage():
		m.Union = UP
		m.Ref, m.Sender = refOf(r.PrepareMessage().SignedHeader()), sigOf(r.PrepareMessage().Sender())
	case r.IsMessageCommitMessage():
		m.Union = UC
		m.Ref, m.Sender, m.Share = refOf(r.CommitMessage().SignedHeader()), sigOf(r.CommitMessage().Sender()), cp(r.CommitMessage().Share())
	case r.IsMessageViewChangeMessage():
		m.Union = UVC
		v := VoteOf(r.ViewChangeMessage())
		m.Vote = &v
	case r.IsMessageNewViewMessage():
		m.Union = UNV
		nv := r.NewViewMessage()
		h := nv.SignedHeader()
		m.NVType, m.NVInst, m.NVH, m.NVV = uint16(h.MessageType()), uint64(h.InstanceId()), uint64(h.BlockHeight()), uint64(h.View())
		it := h.ViewChangeConfirmationsIterator()
		for it.HasNext() {
			m.Votes = append(m.Votes, VoteOf(it.NextViewChangeConfirmations()))
		}
		m.Sender = sigOf(nv.Sender())
		if pp := nv.Message(); pp != nil && len(pp.Raw()) > 0 {
			rr, ss := refOf(pp.SignedHeader()), sigOf(pp.Sender())
			m.PPRef, m.PPSend = &rr, &ss
		}
	default:
		return nil
	}
	return m
}

// Meta is a cheap summary of a raw message used by schedulers, monitors and evidence classification.
type Meta struct {
	Union  int
	Type   uint16
	Inst   uint64
	H, V   uint64
	Sender string
	Hash   string
	OK     bool
}

func MetaOf(raw *interfaces.ConsensusRawMessage) (m Meta) {
	defer func() {
		if recover() != nil {
			m = Meta{}
		}
	}()
	msg := interfaces.ToConsensusMessage(raw)
	if msg == nil {
		return Meta{Union: -1}
	}
	m = Meta{Type: uint16(msg.MessageType()), Inst: uint64(msg.InstanceId()), H: uint64(msg.BlockHeight()), V: uint64(msg.View()), Sender: string(msg.SenderMemberId()), OK: true}
	switch x := msg.(type) {
	case *interfaces.PreprepareMessage:
		m.Union, m.Hash = UPP, string(x.Content().SignedHeader().BlockHash())
	case *interfaces.PrepareMessage:
		m.Union, m.Hash = UP, string(x.Content().SignedHeader().BlockHash())
	case *interfaces.CommitMessage:
		m.Union, m.Hash = UC, string(x.Content().SignedHeader().BlockHash())
	case *interfaces.ViewChangeMessage:
		m.Union = UVC
	case *interfaces.NewViewMessage:
		m.Union = UNV
		if pp := x.Content().Message(); pp != nil && len(pp.Raw()) > 0 {
			m.Hash = string(pp.SignedHeader().BlockHash())
		}
	}
	return m
}
