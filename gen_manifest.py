#!/usr/bin/env python3
"""Regenerates MANIFEST.json from plan.py + manifest_src.py (so it is always valid and in step with the plan)."""
import json
import os
import subprocess
import sys

ROOT = os.path.dirname(os.path.abspath(__file__))
sys.path.insert(0, ROOT)
from plan import PLAN  # noqa: E402
from manifest_src import CHECKS, NOT_BUILT_REASON, ENGINES, NOTES  # noqa: E402

ALL = ["C%02d" % i for i in range(1, 21)]


def hook_commits():
    try:
        out = subprocess.run(["git", "-C", "/repo", "log", "--format=%H %s"], stdout=subprocess.PIPE, text=True).stdout
        return [l.split()[0] for l in out.splitlines() if "verif hook" in l]
    except Exception:
        return []


def main():
    checks, na = [], []
    for pid in ALL:
        if pid in PLAN and pid in CHECKS:
            c = CHECKS[pid]
            checks.append({
                "property_id": pid,
                "quick_cmd": "./check.py %s quick" % pid,
                "thorough_cmd": "./check.py %s thorough" % pid,
                "evidence_file": "/verif/evidence/%s.json" % pid,
                "replay_cmd_template": "./check.py --replay {path}",
                "engine": c["engine"],
                "level_claimed": {"category": "exploration", "text": c["level"], "design_ref": "DESIGN.md section 4, " + pid},
                "level_note": c["note"],
                "technique": c["technique"],
            })
        else:
            na.append({"property_id": pid, "reason": NOT_BUILT_REASON.get(pid, "check not built yet in this session; planned in DESIGN.md section 4")})
    m = {
        "version": 1,
        "setup_cmd": "./check.py --setup",
        "hooks": {
            "guard": "verif",
            "enable": "go build tag: every check builds /repo with `go test -c -tags verif` through the replace directive in /verif/go.mod",
            "baseline_off_cmd": "cd /repo && GOFLAGS=-mod=mod GOPROXY=off GOSUMDB=off GOTOOLCHAIN=local go test -vet=off -count=1 -timeout 25m ./...",
            "source_commits": hook_commits(),
            "add_only": True,
        },
        "engines": ENGINES,
        "checks": checks,
        "notes": NOTES,
        "not_applicable": na,
    }
    with open(os.path.join(ROOT, "MANIFEST.json"), "w") as f:
        json.dump(m, f, indent=1)
    try:
        import jsonschema
        jsonschema.validate(m, json.load(open("/root/.vp/MANIFEST.schema.json")))
        print("MANIFEST.json valid: %d checks, %d not_applicable" % (len(checks), len(na)))
    except ImportError:
        print("MANIFEST.json written (jsonschema not available to validate)")


if __name__ == "__main__":
    main()
