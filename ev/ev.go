// Package ev collects, per test process, what the checks actually explored (evidence) and
// writes replay files for violations. The driver (check.py) merges the per-process files.
package ev

import (
	"crypto/sha256"
	"encoding/binary"
	"encoding/json"
	"fmt"
	"os"
	"path/filepath"
	"sort"
	"sync"
)

type Collector struct {
	mu           sync.Mutex
	Property     string
	Evaluations  int64
	nonTrivial   map[uint64]struct{}
	Classes      map[string]int64
	Excluded     map[string]int64
	Known        map[string]int64 // known-finding keys observed
	Inconclusive int64
	Samples      []interface{}
	Extra        map[string]interface{}
	Exhaustive   map[string]int64 // name -> exact count of enumerated cases
	sampleAt     int64
}

var (
	gmu        sync.Mutex
	collectors = map[string]*Collector{}
)

func Get(property string) *Collector {
	gmu.Lock()
	defer gmu.Unlock()
	c, ok := collectors[property]
	if !ok {
		c = &Collector{Property: property, nonTrivial: map[uint64]struct{}{}, Classes: map[string]int64{}, Excluded: map[string]int64{},
			Known: map[string]int64{}, Extra: map[string]interface{}{}, Exhaustive: map[string]int64{}, sampleAt: 1}
		collectors[property] = c
	}
	return c
}

const maxSigs = 400000

// Case counts one generated/enumerated case.
func (c *Collector) Case() {
	c.mu.Lock()
	c.Evaluations++
	c.mu.Unlock()
}

func (c *Collector) Cases(n int64) {
	c.mu.Lock()
	c.Evaluations += n
	c.mu.Unlock()
}

// NonTrivial records the signature of a case that is non-trivial by the property's stated rule.
func (c *Collector) NonTrivial(sig string) {
	h := sha256.Sum256([]byte(sig))
	c.NonTrivialHash(binary.LittleEndian.Uint64(h[:8]))
}

func (c *Collector) NonTrivialHash(h uint64) {
	c.mu.Lock()
	if len(c.nonTrivial) < maxSigs {
		c.nonTrivial[h] = struct{}{}
	}
	c.mu.Unlock()
}

func (c *Collector) Class(name string) {
	c.mu.Lock()
	c.Classes[name]++
	c.mu.Unlock()
}

func (c *Collector) ClassN(name string, n int64) {
	c.mu.Lock()
	c.Classes[name] += n
	c.mu.Unlock()
}

func (c *Collector) Exclude(name string) {
	c.mu.Lock()
	c.Excluded[name]++
	c.mu.Unlock()
}

func (c *Collector) Inconcl() {
	c.mu.Lock()
	c.Inconclusive++
	c.mu.Unlock()
}

func (c *Collector) SetExtra(k string, v interface{}) {
	c.mu.Lock()
	c.Extra[k] = v
	c.mu.Unlock()
}

// MaxExtra keeps the maximum of an integer-valued extra.
func (c *Collector) MaxExtra(k string, v int64) {
	c.mu.Lock()
	if old, ok := c.Extra[k].(int64); !ok || v > old {
		c.Extra[k] = v
	}
	c.mu.Unlock()
}

func (c *Collector) Exhaust(name string, n int64) {
	c.mu.Lock()
	c.Exhaustive[name] += n
	c.mu.Unlock()
}

// Sample keeps a geometrically thinning selection of cases (1st, 2nd, 4th, 8th ... offered), at most 8.
func (c *Collector) Sample(f func() interface{}) {
	c.mu.Lock()
	defer c.mu.Unlock()
	c.sampleAt--
	if c.sampleAt > 0 {
		return
	}
	v := f()
	if len(c.Samples) < 8 {
		c.Samples = append(c.Samples, v)
	} else {
		copy(c.Samples[1:], c.Samples[2:])
		c.Samples[len(c.Samples)-1] = v
	}
	n := int64(len(c.Samples))
	c.sampleAt = int64(1) << uint(n+2)
	if n >= 8 {
		c.sampleAt = 1 << 14
	}
}

type flushed struct {
	Property     string                 `json:"property"`
	Evaluations  int64                  `json:"evaluations"`
	NonTrivial   []uint64               `json:"nontrivial"`
	Classes      map[string]int64       `json:"classes"`
	Excluded     map[string]int64       `json:"excluded"`
	Known        map[string]int64       `json:"known"`
	Inconclusive int64                  `json:"inconclusive"`
	Samples      []interface{}          `json:"samples"`
	Extra        map[string]interface{} `json:"extra"`
	Exhaustive   map[string]int64       `json:"exhaustive"`
}

// Flush writes every collector to $VERIF_STATS_DIR/<property>.<shard>.<pid>.json.
func Flush() {
	dir := os.Getenv("VERIF_STATS_DIR")
	if dir == "" {
		return
	}
	shard := os.Getenv("VERIF_SHARD")
	gmu.Lock()
	defer gmu.Unlock()
	for _, c := range collectors {
		c.mu.Lock()
		f := flushed{Property: c.Property, Evaluations: c.Evaluations, Classes: c.Classes, Excluded: c.Excluded, Known: c.Known,
			Inconclusive: c.Inconclusive, Samples: c.Samples, Extra: c.Extra, Exhaustive: c.Exhaustive}
		for h := range c.nonTrivial {
			f.NonTrivial = append(f.NonTrivial, h)
		}
		sort.Slice(f.NonTrivial, func(i, j int) bool { return f.NonTrivial[i] < f.NonTrivial[j] })
		c.mu.Unlock()
		b, err := json.Marshal(f)
		if err != nil {
			fmt.Fprintf(os.Stderr, "ev.Flush: %v\n", err)
			continue
		}
		_ = os.WriteFile(filepath.Join(dir, fmt.Sprintf("%s.%s.%d.json", c.Property, shard, os.Getpid())), b, 0o644)
	}
}

// ---------------------------------------------------------------- violations, replays, known findings

type Violation struct {
	Property string      `json:"property"`
	Kind     string      `json:"kind"` // stable identifier of what failed; known-findings match on Key()
	Detail   string      `json:"detail"`
	Replayer string      `json:"replayer"` // name of the replay function in props
	Case     interface{} `json:"case"`
}

func (v *Violation) Error() string { return fmt.Sprintf("[%s] %s: %s", v.Property, v.Kind, v.Detail) }

type KnownEntry struct {
	Property    string `json:"property"`
	Key         string `json:"key"` // = violation kind
	Replay      string `json:"replay"`
	Description string `json:"description"`
	Status      string `json:"status"` // "open" or "fixed"
	// Exclude lists generator triggers (adversary strategies / input classes) that the search for this property
	// leaves out by construction while the finding is open, so that any violation it reports is a different one.
	Exclude []string `json:"exclude,omitempty"`
}

type knownFile struct {
	Findings []KnownEntry `json:"findings"`
	Fixed    []string     `json:"fixed"`
}

var (
	knownOnce sync.Once
	known     map[string]bool
	excluded  map[string]map[string]bool
)

// ExcludedTriggers returns the generator triggers excluded for a property because of open known findings.
func ExcludedTriggers(property string) map[string]bool {
	knownOnce.Do(loadKnown)
	if os.Getenv("VERIF_IGNORE_KNOWN") != "" {
		return map[string]bool{}
	}
	return excluded[property]
}

func loadKnown() {
	known = map[string]bool{}
	excluded = map[string]map[string]bool{}
	p := os.Getenv("VERIF_KNOWN")
	if p == "" {
		return
	}
	b, err := os.ReadFile(p)
	if err != nil {
		return
	}
	var kf knownFile
	if json.Unmarshal(b, &kf) != nil {
		return
	}
	for _, e := range kf.Findings {
		if e.Status == "" || e.Status == "open" {
			known[e.Property+"|"+e.Key] = true
			for _, x := range e.Exclude {
				if excluded[e.Property] == nil {
					excluded[e.Property] = map[string]bool{}
				}
				excluded[e.Property][x] = true
			}
		}
	}
}

// IsKnown reports whether an open known-finding entry lists (property, kind).
func IsKnown(property, kind string) bool {
	knownOnce.Do(loadKnown)
	return known[property+"|"+kind]
}

// Report handles a violation found by a search: a listed finding is counted (and the case continues to count as
// excluded), anything else is written as a replay file and returned as an error string for t.Fatalf.
// It returns "" when the violation is a listed finding.
func Report(v *Violation) string {
	if v == nil {
		return ""
	}
	c := Get(v.Property)
	if IsKnown(v.Property, v.Kind) && os.Getenv("VERIF_IGNORE_KNOWN") == "" {
		c.mu.Lock()
		c.Known[v.Kind]++
		c.mu.Unlock()
		return ""
	}
	WriteReplay(v)
	return v.Error()
}

// WriteReplay writes the violation to $VERIF_REPLAY_DIR/<property>.<shard>.json (overwritten each time: while rapid
// shrinks, the last failing execution - the minimal one - is what remains).
func WriteReplay(v *Violation) {
	dir := os.Getenv("VERIF_REPLAY_DIR")
	if dir == "" {
		return
	}
	b, err := json.MarshalIndent(v, "", " ")
	if err != nil {
		b = []byte(fmt.Sprintf(`{"property":%q,"kind":%q,"detail":"unserialisable case: %v"}`, v.Property, v.Kind, err))
	}
	_ = os.WriteFile(filepath.Join(dir, fmt.Sprintf("%s.%s.json", v.Property, os.Getenv("VERIF_SHARD"))), b, 0o644)
}

func Tier() string {
	if os.Getenv("VERIF_TIER") == "thorough" {
		return "thorough"
	}
	return "quick"
}

func Thorough() bool { return Tier() == "thorough" }
